#!/venv/bin/python
"""Developer tool: execute a hand-written plan in a fresh lane and store it, with the first
mismatch it produces, as a replay file (used for the canonical plans of known findings).

    mkreplay.py <property> <engine> <plan.json> <out.json> [hash_seed]"""
import json
import os
import sys

sys.path.insert(0, os.path.dirname(os.path.abspath(__file__)))
import core  # noqa: E402
import lanes  # noqa: E402


def main():
    prop, engine, plan_path, out = sys.argv[1:5]
    hs = int(sys.argv[5]) if len(sys.argv) > 5 else 0
    plan = json.load(open(plan_path))
    lanes.ensure_shim()
    res = lanes.fresh_lane_call(engine, 0, 0, {'cmd': 'run', 'plan': plan}, hash_seed=hs, c_locale=False)
    if 'harness_error' in res:
        print(res['harness_error'])
        sys.exit(2)
    if not res.get('mismatches'):
        print('plan produces no mismatch on this tree')
        sys.exit(1)
    m = res['mismatches'][0]
    rep = {'property': prop, 'engine': engine, 'verif_seed': 0, 'hash_seed': hs, 'c_locale': False, 'plan': plan,
           'violation': m, 'describe': '%s: observed %s expected %s' % (m.get('key'), m.get('observed'), m.get('expected'))}
    json.dump(rep, open(out, 'w'), indent=1, sort_keys=True)
    print('written', out, rep['describe'])


if __name__ == '__main__':
    main()
