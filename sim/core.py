"""Shared plumbing of the simulator: seed derivation, value/outcome encoding, forked execution,
digests.  Nothing in here reads a real clock, a real random source, ids or pids on a path that
influences a simulated run; wall-clock reads are confined to watchdogs and throughput numbers."""
import datetime
import faulthandler
import hashlib
import json
import os
import random
import select
import signal
import sys
import time
import traceback

VERIF_DIR = os.path.dirname(os.path.dirname(os.path.abspath(__file__)))
REPO = os.environ.get('VERIF_REPO', '/repo')
N_LANES = 16
MASK = (1 << 64) - 1


# ----------------------------------------------------------------------------------------------
# seeds

def splitmix64(x: int) -> int:
    x = (x + 0x9E3779B97F4A7C15) & MASK
    z = x
    z = ((z ^ (z >> 30)) * 0xBF58476D1CE4E5B9) & MASK
    z = ((z ^ (z >> 27)) * 0x94D049BB133111EB) & MASK
    return z ^ (z >> 31)


def derive(seed: int, *labels) -> int:
    """Sub-seed for a labelled stream.  Independent of PYTHONHASHSEED (sha256, not hash())."""
    h = hashlib.sha256(('%d|' % seed + '|'.join(str(l) for l in labels)).encode()).digest()
    return splitmix64(int.from_bytes(h[:8], 'big'))


def rng(seed: int, *labels) -> random.Random:
    return random.Random(derive(seed, *labels))


def run_seed(verif_seed: int, engine: str, index: int) -> int:
    return derive(verif_seed, 'run', engine, index)


def lane_hash_seed(verif_seed: int, lane: int) -> int:
    # lane 0 keeps hash seed 0 (the reproducible default people use), the rest are spread out
    return 0 if lane == 0 else 1 + derive(verif_seed, 'lane-hash', lane) % 4294967290


# ----------------------------------------------------------------------------------------------
# values <-> JSON

def enc_value(v):
    """Encode a workbook / override value for a plan (JSON)."""
    if isinstance(v, datetime.datetime):
        return {'$dt': v.isoformat()}
    if isinstance(v, datetime.date):
        return {'$d': v.isoformat()}
    if v is None or isinstance(v, (bool, int, float, str)):
        return v
    raise TypeError('cannot encode %r' % (v,))


def dec_value(v):
    if isinstance(v, dict):
        if '$dt' in v:
            return datetime.datetime.fromisoformat(v['$dt'])
        if '$d' in v:
            return datetime.date.fromisoformat(v['$d'])
        raise TypeError('cannot decode %r' % (v,))
    return v


def outcome_of_value(v):
    """Observable outcome of a query: (kind, type name, canonical text)."""
    tn = type(v).__name__
    if tn == 'EmptyCell':
        return ['v', 'EmptyCell', '']
    if isinstance(v, float) and v != v:
        return ['v', tn, 'nan']
    if isinstance(v, (list, tuple)):
        return ['v', tn, json.dumps([outcome_of_value(i) for i in v])]
    return ['v', tn, repr(v)]


def outcome_of_exc(e: BaseException):
    return ['exc', type(e).__name__, '']


def canon(obj) -> str:
    return json.dumps(obj, sort_keys=True, separators=(',', ':'), ensure_ascii=True, default=str)


def digest(obj) -> str:
    return hashlib.sha256(canon(obj).encode()).hexdigest()


# ----------------------------------------------------------------------------------------------
# forked execution with a wall watchdog

class HarnessError(Exception):
    pass


def run_forked(fn, timeout_s: float = 120.0):
    """Run fn() in a forked child, return its JSON-able result.  A crash, hang or exception in
    the harness itself comes back as {'harness_error': ...}; it is never mistaken for a pass."""
    r, w = os.pipe()
    sys.stdout.flush()
    sys.stderr.flush()
    # a pending faulthandler watchdog is a C thread that does not survive fork(); re-arming it in the
    # child would then wait for that thread forever — cancel it here, where it lives
    try:
        faulthandler.cancel_dump_traceback_later()
    except Exception:
        pass
    pid = os.fork()
    if pid == 0:
        code = 0
        try:
            os.close(r)
            # keep the protocol channel (fd 1 of the lane) clean
            os.dup2(2, 1)
            try:
                faulthandler.enable(file=sys.stderr)
                faulthandler.dump_traceback_later(max(1.0, timeout_s - 2.0), exit=False, file=sys.stderr)
            except Exception:
                pass
            try:
                out = fn()
                data = json.dumps(out, default=str).encode()
            except BaseException:
                data = json.dumps({'harness_error': traceback.format_exc()}).encode()
            mv = memoryview(data)
            while mv:
                n = os.write(w, mv[:65536])
                mv = mv[n:]
        except BaseException:
            code = 3
        finally:
            os._exit(code)
    os.close(w)
    chunks = []
    deadline = time.monotonic() + timeout_s
    timed_out = False
    while True:
        left = deadline - time.monotonic()
        if left <= 0:
            timed_out = True
            break
        rl, _, _ = select.select([r], [], [], min(left, 1.0))
        if rl:
            b = os.read(r, 1 << 20)
            if not b:
                break
            chunks.append(b)
    os.close(r)
    if timed_out:
        try:
            os.kill(pid, signal.SIGKILL)
        except ProcessLookupError:
            pass
        os.waitpid(pid, 0)
        return {'harness_error': 'child timed out after %.0fs' % timeout_s}
    _, status = os.waitpid(pid, 0)
    data = b''.join(chunks)
    if not data:
        return {'harness_error': 'child died without output, status=%r' % (status,)}
    try:
        return json.loads(data)
    except Exception as e:
        return {'harness_error': 'undecodable child output: %r' % (e,)}


def setup_repo_path():
    """Make `import excel2pycl` resolve to the tree under VERIF_REPO (default /repo) — the current
    working tree, never an installed copy."""
    if REPO in sys.path:
        sys.path.remove(REPO)
    sys.path.insert(0, REPO)
    for name in list(sys.modules):
        if name == 'excel2pycl' or name.startswith('excel2pycl.'):
            raise HarnessError('excel2pycl imported before setup_repo_path()')


def import_everything():
    """Import every excel2pycl module up front (no lazy imports left for a parked thread to hold
    an import lock on) WITHOUT parsing anything, so lazy token tables stay uninitialised."""
    import importlib
    import pkgutil
    import warnings
    warnings.simplefilter('ignore')
    import excel2pycl
    if not os.path.abspath(excel2pycl.__file__).startswith(os.path.abspath(REPO) + os.sep):
        raise HarnessError('excel2pycl resolved to %s, not under %s' % (excel2pycl.__file__, REPO))
    import excel2pycl.src.lexer  # noqa
    import excel2pycl.src.ast_builder  # noqa
    import excel2pycl.src.translators as T
    for m in pkgutil.iter_modules(T.__path__):
        importlib.import_module('excel2pycl.src.translators.' + m.name)
    import excel2pycl.src.utilities.abstract_excel_in_python_class  # noqa
    import dateutil.parser  # noqa
    import dateutil.relativedelta  # noqa
    import openpyxl  # noqa
    return excel2pycl


# ----------------------------------------------------------------------------------------------
# process-global settings of the standard library that an embedding application may have changed.
# A run applies them inside its forked child (nothing leaks), the references keep the defaults.

def gen_env(seed):
    """Drawn from its own stream, so adding a knob never shifts a plan's other draws."""
    r = rng(seed, 'process-env')
    env = {}
    if r.random() < 0.4:
        env['firstweekday'] = r.choice([6, 6, 5, 3, 1])            # calendar.setfirstweekday (US-style calendars: SUNDAY)
    if r.random() < 0.25:
        env['decimal'] = r.choice([[6, 'ROUND_DOWN'], [3, 'ROUND_CEILING'], [28, 'ROUND_HALF_UP']])
    if r.random() < 0.15:
        env['warnings'] = 'always'                                  # every warning shown every time (never 'error')
    if r.random() < 0.25:
        env['logging'] = 'DEBUG'                                    # the application runs in verbose mode (root logger at DEBUG)
    return env


_RECURSION_LIMIT_AT_START = sys.getrecursionlimit()
_CALENDAR_MDAYS = (0, 31, 28, 31, 30, 31, 30, 31, 31, 30, 31, 30, 31)


def reset_interpreter_state(env=None):
    """Put the interpreter-wide settings the library (or the code it generates) might have touched back to what this
    run started with - defaults plus the run's own knobs.  Used by the references between two evaluations, so that
    "pristine" also means: no leftovers in the decimal context, the calendar module, the recursion limit, logging."""
    import calendar
    import decimal
    import logging
    decimal.setcontext(decimal.Context(prec=28, rounding=decimal.ROUND_HALF_EVEN, Emin=-999999, Emax=999999, capitals=1, clamp=0,
                                       flags=[], traps=[decimal.InvalidOperation, decimal.DivisionByZero, decimal.Overflow]))
    decimal.DefaultContext.prec = 28
    decimal.DefaultContext.rounding = decimal.ROUND_HALF_EVEN
    calendar.setfirstweekday(0)
    calendar.mdays[:] = _CALENDAR_MDAYS          # in place: a data table of the standard library is interpreter-wide state too (c15p)
    sys.setrecursionlimit(_RECURSION_LIMIT_AT_START)
    logging.getLogger().setLevel(logging.WARNING)
    apply_env(env)


def apply_env(env):
    fired = {}
    if not env:
        return fired
    if 'firstweekday' in env:
        import calendar
        calendar.setfirstweekday(env['firstweekday'])
        fired['env_calendar_firstweekday_changed'] = 1
    if 'decimal' in env:
        import decimal
        ctx = decimal.getcontext()
        ctx.prec = env['decimal'][0]
        ctx.rounding = getattr(decimal, env['decimal'][1])
        # the decimal context is per thread; threads started later copy DefaultContext, so an application-wide
        # setting lives there as well
        decimal.DefaultContext.prec = env['decimal'][0]
        decimal.DefaultContext.rounding = getattr(decimal, env['decimal'][1])
        fired['env_decimal_context_changed'] = 1
    if env.get('warnings'):
        import warnings
        warnings.simplefilter(env['warnings'])
        fired['env_warnings_filter_changed'] = 1
    if env.get('logging'):
        import logging
        logging.getLogger().setLevel(getattr(logging, env['logging']))
        fired['env_root_logger_level_changed'] = 1
    return fired
