#!/venv/bin/python
"""Seeded-change bookkeeping (sensitivity of the checks against independently written breakage).

    seeded.py import <id> <worktree> <property>   confirm a sub-agent's deliverable in its scratch worktree (44 tests pass with
                                                  the patch, demo exits 1 with it and 0 without it) and keep it as /verif/seeded/<id>/
    seeded.py run <id> [--tier quick]             git -C /repo apply seeded/<id>/patch.diff; run the property's check; undo
    seeded.py runall                              every kept change, one after the other; prints the catch table

Nothing here is a registered check.  /repo is always restored (git checkout -- .) and the evidence
file of the property is put back, so a run against a seeded change never leaks into committed evidence."""
import json
import os
import shutil
import subprocess
import sys
import time

HERE = os.path.dirname(os.path.abspath(__file__))
ROOT = os.path.dirname(HERE)
SEEDED = os.path.join(ROOT, 'seeded')
PY = '/venv/bin/python'


def sh(cmd, cwd=None, env=None, timeout=1800):
    p = subprocess.run(cmd, shell=True, cwd=cwd, env=env, stdout=subprocess.PIPE, stderr=subprocess.STDOUT, timeout=timeout)
    return p.returncode, p.stdout.decode(errors='replace')


def cmd_import(sid, wt, prop):
    env = dict(os.environ, PYTHONPATH=wt)
    out = {}
    rc, o = sh('git diff -- excel2pycl', cwd=wt)
    patch = o
    if not patch.strip():
        print('no patch applied in', wt)
        return 2
    rc, o = sh('%s -m pytest -q -p no:cacheprovider --timeout=900 2>&1 | tail -3' % PY, cwd=wt, env=env)
    out['tests_with_patch'] = o.strip().splitlines()[-1] if o.strip() else ''
    rc1, o1 = sh('%s demo.py' % PY, cwd=wt, env=env, timeout=600)
    out['demo_with_patch_exit'] = rc1
    ptmp = '/tmp/seeded_%s.diff' % sid
    open(ptmp, 'w').write(patch)
    sh('git checkout -- excel2pycl', cwd=wt)
    rc0, o0 = sh('%s demo.py' % PY, cwd=wt, env=env, timeout=600)
    out['demo_without_patch_exit'] = rc0
    rca, oa = sh('git apply %s' % ptmp, cwd=wt)
    ok = '44 passed' in out['tests_with_patch'] and rc1 == 1 and rc0 == 0 and rca == 0
    print(json.dumps(out, indent=1))
    print('demo with patch (tail):', o1[-600:])
    if not ok:
        print('NOT CONFIRMED — not kept')
        return 1
    d = os.path.join(SEEDED, sid)
    os.makedirs(d, exist_ok=True)
    open(os.path.join(d, 'patch.diff'), 'w').write(patch)
    shutil.copy(os.path.join(wt, 'demo.py'), os.path.join(d, 'demo.py'))
    meta = {}
    try:
        meta = json.load(open(os.path.join(wt, 'meta.json')))
    except Exception as e:
        meta = {'note': 'agent meta.json unreadable: %s' % e}
    meta = {'id': sid, 'property': prop, 'agent_meta': meta, 'confirmed': out,
            'confirmed_how': 'in the scratch worktree: pytest (44 passed) with the patch; demo.py exit 1 with the patch, exit 0 after git checkout -- excel2pycl; patch re-applied',
            'checks': []}
    json.dump(meta, open(os.path.join(d, 'meta.json'), 'w'), indent=1, ensure_ascii=False)
    print('kept as', d)
    return 0


def cmd_run(sid, tier='quick', props=None, extra='', in_repo=False, record=True):
    """Run the property's check against the seeded change.  Default: in a scratch worktree of /repo's HEAD under
    /tmp with the patch applied (VERIF_REPO points the check at it; evidence and replays go to a scratch
    directory), removed afterwards.  --in-repo: git -C /repo apply, run, git -C /repo checkout -- . """
    d = os.path.join(SEEDED, sid)
    meta = json.load(open(os.path.join(d, 'meta.json')))
    props = props or [meta['property']]
    results = []
    scratch = '/tmp/seeded_run_%s_%d' % (sid, os.getpid())
    outdir = scratch + '_out'
    env = dict(os.environ)
    if in_repo:
        rc, o = sh('git -C /repo status --porcelain')
        if o.strip():
            print('/repo is not clean:', o)
            return 2
    else:
        rc, o = sh('git -C /repo worktree add -q --detach %s HEAD' % scratch)
        if rc != 0:
            print('cannot create scratch worktree:', o)
            return 2
        rc, o = sh('git -C %s apply %s' % (scratch, os.path.join(d, 'patch.diff')))
        if rc != 0:
            # the patch was written against an older HEAD (fix: commits landed since): three-way merge from its blob ids
            rc, o = sh('git -C %s apply --3way %s' % (scratch, os.path.join(d, 'patch.diff')))
        if rc != 0:
            print('patch does not apply:', o)
            sh('git -C /repo worktree remove --force %s' % scratch)
            return 2
        env['VERIF_REPO'] = scratch
    os.makedirs(outdir, exist_ok=True)
    env['VERIF_EVIDENCE_DIR'] = os.path.join(outdir, 'evidence')
    env['VERIF_REPLAY_DIR'] = os.path.join(outdir, 'replays')
    try:
        for prop in props:
            t0 = time.time()
            try:
                if in_repo:
                    rc, o = sh('git -C /repo apply %s' % os.path.join(d, 'patch.diff'))
                    if rc != 0:
                        print('patch does not apply:', o)
                        return 2
                rc, o = sh('%s sim/check.py %s --tier %s %s' % (PY, prop, tier, extra), cwd=ROOT, env=env, timeout=7200)
            finally:
                if in_repo:
                    sh('git -C /repo checkout -- .')
            viol = [l for l in o.splitlines() if l.startswith('VIOLATION')]
            desc = [l.strip() for l in o.splitlines() if l.startswith('  ') and ('observed' in l or 'gives' in l or 'fails again' in l)][:6]
            by_regress = [l for l in viol if '/regress/' in l]
            by_search = [l for l in viol if '/regress/' not in l]
            search_desc = [l for l in desc if 'regression plan' not in l]
            r = {'property': prop, 'tier': tier, 'cmd': '%s sim/check.py %s --tier %s %s' % (PY, prop, tier, extra), 'exit': rc,
                 'violation_lines': len(viol), 'caught_by_seeded_search': len(by_search), 'caught_by_regression_plans': len(by_regress),
                 'first': (search_desc or desc)[:1], 'wall_s': round(time.time() - t0, 1),
                 'caught': rc == 1 and bool(viol), 'tree': 'git -C /repo apply' if in_repo else 'scratch worktree of /repo HEAD + patch (VERIF_REPO)',
                 'repo_head': sh('git -C /repo rev-parse --short HEAD')[1].strip()}
            results.append(r)
            print(sid, json.dumps(r, ensure_ascii=False))
            if rc not in (0, 1):
                print(o[-1500:])
    finally:
        if not in_repo:
            sh('git -C /repo worktree remove --force %s' % scratch)
            shutil.rmtree(scratch, ignore_errors=True)
        shutil.rmtree(outdir, ignore_errors=True)
    if not record:
        return results
    meta['checks'] = [c for c in meta.get('checks', []) if (c['property'], c['tier']) not in [(r['property'], r['tier']) for r in results]] + results
    # every run is also appended to 'history' (a miss that led to a stronger check stays on record)
    vc = sh('git -C %s rev-parse --short HEAD' % ROOT)[1].strip() + ('+uncommitted' if sh('git -C %s status --porcelain -- sim' % ROOT)[1].strip() else '')
    for r in results:
        meta.setdefault('history', []).append({'verif': vc, 'property': r['property'], 'tier': r['tier'], 'caught': r['caught'],
                                               'exit': r['exit'], 'first': r['first']})
    json.dump(meta, open(os.path.join(d, 'meta.json'), 'w'), indent=1, ensure_ascii=False)
    if in_repo:
        rc, o = sh('git -C /repo status --porcelain')
        if o.strip():
            print('WARNING: /repo not clean after run:', o)
    return 0


def cmd_table():
    """Markdown table of every kept change and what the checks did with it (for DESIGN.md section 9.4)."""
    print('| id | property | the change (cover story) | needs | quick check of that property | earlier misses |')
    print('|----|----------|--------------------------|-------|------------------------------|----------------|')
    for sid in sorted(os.listdir(SEEDED)):
        p = os.path.join(SEEDED, sid, 'meta.json')
        if not os.path.exists(p):
            continue
        m = json.load(open(p))
        sh_ = m.get('short', {})
        own = [c for c in m.get('checks', []) if c['property'] == m['property']]
        other = [c for c in m.get('checks', []) if c['property'] != m['property'] and c.get('caught')]
        res = '—'
        if own:
            c = own[-1]
            key = ((c.get('first') or [''])[0].split(' at ')[0].split(':')[0])[:60]
            res = ('**caught** (%s; %d VIOLATION line%s)' % (key, c['violation_lines'], '' if c['violation_lines'] == 1 else 's')) if c['caught'] else '**MISSED**'
        if other:
            res += '; also ' + ', '.join(sorted(set(c['property'] for c in other)))
        misses = [h for h in m.get('history', []) if not h.get('caught') and h.get('property') == m['property']]
        print('| %s | %s | %s | %s | %s | %s |' % (sid, m['property'], sh_.get('change', ''), sh_.get('needs', ''), res,
                                               '; '.join((h.get('note') or 'missed at /verif ' + h.get('verif', '?')) for h in misses) or ''))


def cmd_sweep(seeds, out):
    """Detection rate: every kept change x the quick check of its property x several VERIF_SEEDs."""
    res = {}
    if os.path.exists(out):
        res = json.load(open(out))
    for sid in sorted(os.listdir(SEEDED)):
        p = os.path.join(SEEDED, sid, 'meta.json')
        if not os.path.exists(p):
            continue
        for seed in seeds:
            if str(seed) in res.get(sid, {}):
                continue
            os.environ['VERIF_SEED'] = str(seed)
            rs = cmd_run(sid, record=False)
            if not isinstance(rs, list) or not rs:
                continue
            c = rs[0]
            res.setdefault(sid, {})[str(seed)] = {'caught': c['caught'], 'exit': c['exit'], 'search': c.get('caught_by_seeded_search'),
                                                  'regress': c.get('caught_by_regression_plans'), 'wall_s': c['wall_s'], 'first': c['first']}
            json.dump(res, open(out, 'w'), indent=1, ensure_ascii=False)
    n = sum(len(v) for v in res.values())
    k = sum(1 for v in res.values() for r in v.values() if r['caught'])
    ks = sum(1 for v in res.values() for r in v.values() if r.get('search'))
    print('sweep: %d runs, %d caught (%d by the seeded search itself)' % (n, k, ks))


def cmd_sweep_table(path):
    """Markdown summary of a sweep file (DESIGN.md section 9.4)."""
    res = json.load(open(path))
    seeds = sorted({s for v in res.values() for s in v}, key=int)
    by_design = {}
    for sid in sorted(res):
        m = json.load(open(os.path.join(SEEDED, sid, 'meta.json')))
        own = [c for c in m.get('checks', []) if c['property'] == m['property']]
        by_design[sid] = bool(own) and not own[-1]['caught']
    n = k = 0
    rows = []
    for sid in sorted(res):
        cells = []
        for s_ in seeds:
            r = res[sid].get(s_)
            if r is None:
                cells.append('–')
                continue
            n += 1
            k += 1 if r['caught'] else 0
            cells.append('caught' if r['caught'] else 'MISSED')
        if any(c == 'MISSED' for c in cells):
            rows.append('| %s | %s | %s |' % (sid, ' | '.join(cells), 'not caught at seed 0 either (see the list above)' if by_design[sid] else '**seed-dependent**'))
    print('%d runs (%d changes x seeds %s): %d caught.' % (n, len(res), ', '.join(seeds), k))
    print()
    print('| id | ' + ' | '.join('seed ' + s_ for s_ in seeds) + ' | note |')
    print('|----|' + '|'.join(['---'] * len(seeds)) + '|------|')
    for r in rows:
        print(r)


def main():
    if sys.argv[1] == 'sweep-table':
        return cmd_sweep_table(sys.argv[2])
    if sys.argv[1] == 'sweep':
        seeds = [int(x) for x in sys.argv[sys.argv.index('--seeds') + 1].split(',')]
        return cmd_sweep(seeds, sys.argv[sys.argv.index('--out') + 1])
    if sys.argv[1] == 'table':
        if '--into-design' in sys.argv:
            import io
            import contextlib
            buf = io.StringIO()
            with contextlib.redirect_stdout(buf):
                cmd_table()
            dp = os.path.join(ROOT, 'DESIGN.md')
            d = open(dp).read()
            a, b = d.index('<!-- seeded-table:begin -->'), d.index('<!-- seeded-table:end -->')
            d = d[:a] + '<!-- seeded-table:begin -->\n' + buf.getvalue() + d[b:]
            open(dp, 'w').write(d)
            return
        return cmd_table()
    if sys.argv[1] == 'import':
        sys.exit(cmd_import(sys.argv[2], sys.argv[3], sys.argv[4]))
    if sys.argv[1] == 'run':
        tier = 'quick'
        if '--tier' in sys.argv:
            tier = sys.argv[sys.argv.index('--tier') + 1]
        props = None
        if '--props' in sys.argv:
            props = sys.argv[sys.argv.index('--props') + 1].split(',')
        sys.exit(cmd_run(sys.argv[2], tier, props, in_repo='--in-repo' in sys.argv))
    if sys.argv[1] == 'runall':
        for sid in sorted(os.listdir(SEEDED)):
            if os.path.exists(os.path.join(SEEDED, sid, 'meta.json')):
                cmd_run(sid)
        print('\n%-10s %-5s %-7s %s' % ('id', 'prop', 'caught', 'first violation'))
        for sid in sorted(os.listdir(SEEDED)):
            p = os.path.join(SEEDED, sid, 'meta.json')
            if os.path.exists(p):
                m = json.load(open(p))
                for c in m.get('checks', []):
                    print('%-10s %-5s %-7s %s' % (sid, c['property'], c['caught'], (c.get('first') or [''])[0][:110]))


if __name__ == '__main__':
    main()
