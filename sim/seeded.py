#!/venv/bin/python
"""Seeded-change bookkeeping (sensitivity of the checks against independently written breakage).

    seeded.py import <id> <worktree> <property>   confirm a sub-agent's deliverable in its scratch worktree (44 tests pass with
                                                  the patch, demo exits 1 with it and 0 without it) and keep it as /verif/seeded/<id>/
    seeded.py run <id> [--tier quick]             git -C /repo apply seeded/<id>/patch.diff; run the property's check; undo
    seeded.py runall                              every kept change, one after the other; prints the catch table

Nothing here is a registered check.  /repo is always restored (git checkout -- .) and the evidence
file of the property is put back, so a run against a seeded change never leaks into committed evidence."""
import json
import os
import shutil
import subprocess
import sys
import time

HERE = os.path.dirname(os.path.abspath(__file__))
ROOT = os.path.dirname(HERE)
SEEDED = os.path.join(ROOT, 'seeded')
PY = '/venv/bin/python'


def sh(cmd, cwd=None, env=None, timeout=1800):
    p = subprocess.run(cmd, shell=True, cwd=cwd, env=env, stdout=subprocess.PIPE, stderr=subprocess.STDOUT, timeout=timeout)
    return p.returncode, p.stdout.decode(errors='replace')


def cmd_import(sid, wt, prop):
    env = dict(os.environ, PYTHONPATH=wt)
    out = {}
    rc, o = sh('git diff -- excel2pycl', cwd=wt)
    patch = o
    if not patch.strip():
        print('no patch applied in', wt)
        return 2
    rc, o = sh('%s -m pytest -q -p no:cacheprovider --timeout=900 2>&1 | tail -3' % PY, cwd=wt, env=env)
    out['tests_with_patch'] = o.strip().splitlines()[-1] if o.strip() else ''
    rc1, o1 = sh('%s demo.py' % PY, cwd=wt, env=env, timeout=600)
    out['demo_with_patch_exit'] = rc1
    ptmp = '/tmp/seeded_%s.diff' % sid
    open(ptmp, 'w').write(patch)
    sh('git checkout -- excel2pycl', cwd=wt)
    rc0, o0 = sh('%s demo.py' % PY, cwd=wt, env=env, timeout=600)
    out['demo_without_patch_exit'] = rc0
    rca, oa = sh('git apply %s' % ptmp, cwd=wt)
    ok = '44 passed' in out['tests_with_patch'] and rc1 == 1 and rc0 == 0 and rca == 0
    print(json.dumps(out, indent=1))
    print('demo with patch (tail):', o1[-600:])
    if not ok:
        print('NOT CONFIRMED — not kept')
        return 1
    d = os.path.join(SEEDED, sid)
    os.makedirs(d, exist_ok=True)
    open(os.path.join(d, 'patch.diff'), 'w').write(patch)
    shutil.copy(os.path.join(wt, 'demo.py'), os.path.join(d, 'demo.py'))
    meta = {}
    try:
        meta = json.load(open(os.path.join(wt, 'meta.json')))
    except Exception as e:
        meta = {'note': 'agent meta.json unreadable: %s' % e}
    meta = {'id': sid, 'property': prop, 'agent_meta': meta, 'confirmed': out,
            'confirmed_how': 'in the scratch worktree: pytest (44 passed) with the patch; demo.py exit 1 with the patch, exit 0 after git checkout -- excel2pycl; patch re-applied',
            'checks': []}
    json.dump(meta, open(os.path.join(d, 'meta.json'), 'w'), indent=1, ensure_ascii=False)
    print('kept as', d)
    return 0


def cmd_run(sid, tier='quick', props=None, extra=''):
    d = os.path.join(SEEDED, sid)
    meta = json.load(open(os.path.join(d, 'meta.json')))
    props = props or [meta['property']]
    rc, o = sh('git -C /repo status --porcelain')
    if o.strip():
        print('/repo is not clean:', o)
        return 2
    results = []
    for prop in props:
        ev = os.path.join(ROOT, 'evidence', '%s.json' % prop)
        ev_bak = ev + '.bak-seeded'
        if os.path.exists(ev):
            shutil.copy(ev, ev_bak)
        t0 = time.time()
        try:
            rc, o = sh('git -C /repo apply %s' % os.path.join(d, 'patch.diff'))
            if rc != 0:
                print('patch does not apply:', o)
                return 2
            rc, o = sh('%s sim/check.py %s --tier %s %s' % (PY, prop, tier, extra), cwd=ROOT, timeout=7200)
        finally:
            sh('git -C /repo checkout -- .')
            if os.path.exists(ev_bak):
                shutil.move(ev_bak, ev)
        viol = [l for l in o.splitlines() if l.startswith('VIOLATION')]
        desc = [l.strip() for l in o.splitlines() if l.startswith('  ') and 'observed' in l][:2]
        r = {'property': prop, 'tier': tier, 'cmd': '%s sim/check.py %s --tier %s %s' % (PY, prop, tier, extra), 'exit': rc,
             'violation_lines': len(viol), 'first': desc[:1], 'wall_s': round(time.time() - t0, 1),
             'caught': rc == 1 and bool(viol)}
        results.append(r)
        print(sid, json.dumps(r, ensure_ascii=False))
        if rc not in (0, 1):
            print(o[-1500:])
    meta['checks'] = [c for c in meta.get('checks', []) if (c['property'], c['tier']) not in [(r['property'], r['tier']) for r in results]] + results
    json.dump(meta, open(os.path.join(d, 'meta.json'), 'w'), indent=1, ensure_ascii=False)
    rc, o = sh('git -C /repo status --porcelain')
    if o.strip():
        print('WARNING: /repo not clean after run:', o)
    return 0


def main():
    if sys.argv[1] == 'import':
        sys.exit(cmd_import(sys.argv[2], sys.argv[3], sys.argv[4]))
    if sys.argv[1] == 'run':
        tier = 'quick'
        if '--tier' in sys.argv:
            tier = sys.argv[sys.argv.index('--tier') + 1]
        props = None
        if '--props' in sys.argv:
            props = sys.argv[sys.argv.index('--props') + 1].split(',')
        sys.exit(cmd_run(sys.argv[2], tier, props))
    if sys.argv[1] == 'runall':
        for sid in sorted(os.listdir(SEEDED)):
            if os.path.exists(os.path.join(SEEDED, sid, 'meta.json')):
                cmd_run(sid)
        print('\n%-10s %-5s %-7s %s' % ('id', 'prop', 'caught', 'first violation'))
        for sid in sorted(os.listdir(SEEDED)):
            p = os.path.join(SEEDED, sid, 'meta.json')
            if os.path.exists(p):
                m = json.load(open(p))
                for c in m.get('checks', []):
                    print('%-10s %-5s %-7s %s' % (sid, c['property'], c['caught'], (c.get('first') or [''])[0][:110]))


if __name__ == '__main__':
    main()
