/* Wall-clock seam for the simulator.  LD_PRELOADed into simulation processes only.
 * Interposes every libc wall-clock read; monotonic clocks pass through.
 * State is process-local and inherited over fork(), which is what the lanes need. */
#define _GNU_SOURCE
#include <dlfcn.h>
#include <time.h>
#include <sys/time.h>
#include <stdint.h>

static volatile int64_t sim_ns = 0;      /* simulated instant, ns since the epoch (UTC) */
static volatile int     sim_on = 0;      /* 0: pass through to the real clock */
static volatile int64_t sim_step_ns = 0; /* auto-advance applied AFTER every read */
static volatile int64_t sim_reads = 0;   /* number of wall-clock reads seen (on or off) */

void    sim_set_ns(int64_t ns)      { sim_ns = ns; sim_on = 1; }
void    sim_off(void)               { sim_on = 0; }
int     sim_is_on(void)             { return sim_on; }
int64_t sim_get_ns(void)            { return sim_ns; }
void    sim_set_step_ns(int64_t st) { sim_step_ns = st; }
int64_t sim_read_count(void)        { return sim_reads; }
void    sim_reset_reads(void)       { sim_reads = 0; }

static inline int64_t take(void) { int64_t v = sim_ns; sim_reads++; sim_ns += sim_step_ns; return v; }

static int is_wall(clockid_t c) {
    return c == CLOCK_REALTIME || c == CLOCK_REALTIME_COARSE
#ifdef CLOCK_TAI
        || c == CLOCK_TAI
#endif
        ;
}

int clock_gettime(clockid_t c, struct timespec *ts) {
    static int (*real)(clockid_t, struct timespec *) = 0;
    if (!real) real = (int (*)(clockid_t, struct timespec *))dlsym(RTLD_NEXT, "clock_gettime");
    if (is_wall(c)) {
        if (sim_on && ts) { int64_t v = take(); ts->tv_sec = v / 1000000000LL; ts->tv_nsec = v % 1000000000LL;
                            if (ts->tv_nsec < 0) { ts->tv_nsec += 1000000000LL; ts->tv_sec -= 1; } return 0; }
        sim_reads++;
    }
    return real(c, ts);
}

int gettimeofday(struct timeval *tv, void *tz) {
    static int (*real)(struct timeval *, void *) = 0;
    if (!real) real = (int (*)(struct timeval *, void *))dlsym(RTLD_NEXT, "gettimeofday");
    if (sim_on && tv) { int64_t v = take(); tv->tv_sec = v / 1000000000LL; tv->tv_usec = (v % 1000000000LL) / 1000;
                        if (tv->tv_usec < 0) { tv->tv_usec += 1000000; tv->tv_sec -= 1; } return 0; }
    sim_reads++;
    return real(tv, tz);
}

time_t time(time_t *t) {
    static time_t (*real)(time_t *) = 0;
    if (!real) real = (time_t (*)(time_t *))dlsym(RTLD_NEXT, "time");
    if (sim_on) { int64_t v = take(); time_t s = (time_t)(v / 1000000000LL); if (v % 1000000000LL < 0) s -= 1; if (t) *t = s; return s; }
    sim_reads++;
    return real(t);
}
