#!/usr/bin/env python3
"""Regenerates /verif/MANIFEST.json from one table (so the file is always valid and consistent)."""
import json
import os

HERE = os.path.dirname(os.path.abspath(__file__))
ROOT = os.path.dirname(HERE)
PY = '/venv/bin/python'

CLAIMED = {
    'C04': dict(engine='execsim', design='4.1',
                technique='deterministic simulation: seeded override/query histories x 16 hash seeds, refinement against re-translation of the edited workbook in a pristine foreign process',
                text='Seeded search over histories of set_cells/get_cell/get_cells/get_sheet calls (1-3 logical clients, 1-2 executors over one generated class, operation-level interleaving, 16 string-hash seeds; batches sent again, callers that re-aim or change their Cell objects after a call, targets on formulas / blanks / cells past the used range and inside range tails) on generated workbooks; after every query the response must equal what a fresh Parser+Executor report for the workbook with each overridden cell replaced by its most recent constant (reference execution in a pristine process with another hash seed). Exploration, not proof: a clean batch is evidence over the sampled histories only.',
                note='Trusts openpyxl to write the edited workbook faithfully (a read-back self-check discards runs whose planted constants do not survive the xlsx round trip), the re-translation path itself (functional defects shared by both paths cancel out by design), and the generator bounds (<=3 sheets, <=48 cells, <=30 operations). The three defects this check found on the original tree (hash-order-dependent survivor of two writes, overridden formula still evaluated, whole-column references blind to rows appended by set_cells) were repaired in 10b93f2, 52e7894 and bc17b30; their minimised plans are replayed on every run (regress/). No finding is currently recorded for this property.'),
    'C08': dict(engine='execsim', design='4.2',
                technique='deterministic simulation: seeded query histories over fixed overrides, every response compared with an isolated single query on a pristine executor in a foreign process',
                text='Overrides are established one write per cell - all at once or, on half of the runs, in up to three epochs separated by query bursts - and 6-80 queries are issued from 1-3 logical clients through get_cell/get_cells/get_sheet with every addressing spelling, repeated and permuted, with Cell objects the caller re-uses, re-aims and lists twice, on some runs from real threads that take turns strictly one at a time, with evaluation failures in the middle and (on some runs) a simulated clock step between two bursts; each response must equal the value of one get_cell on a pristine executor over a brand-new class given the overrides in force in one batch (other process, other hash seed, same instant), get_sheet must have exactly the spec-derived shape, and sizes must be unchanged afterwards.',
                note='Exploration over sampled histories within the generator bounds (<=3 sheets, <=48 cells, dependency chains of a handful of cells: a defect that needs a chain of hundreds of cells, e.g. one that involves the recursion limit of the interpreter, is out of reach). The isolated reference uses the same generated source text (C09 decides that the text itself is stable). Grid shape is derived from the workbook spec, so the check assumes the reader reports the used range of a dense-origin workbook correctly (C18, not claimed).'),
    'C06': dict(engine='loadsim', design='4.6',
                technique='deterministic simulation: seeded write/load/clock-jump/chdir/relink histories over real files re-stamped from a simulated clock (granularity 1ns..2s), file-loaded executor compared with the class object of the returned text',
                text='Decides ONLY the clause "behaves the same whether loaded from the written file or used as a class object": 2-4 variants of a generated workbook are translated and written to 1-3 output paths repeatedly, the paths - spelled absolutely, relative to a working directory that changes, or through a symbolic link that is re-pointed; with distinct names or the same name in several directories - are loaded through Executor.set_executed_class(class_file=...) into fresh executors between clock jumps (forward and backward, inside and across timestamp quanta), other tools leave bytecode-cache entries behind, and every cell, the titles, the sizes and - after the same set_cells batch has been given to both - the overridden behaviour of the file-loaded executor must equal those of an executor given the class object exec\'d from the text the parser returned for that write (one class object per text, shared by all executors that use it).',
                note='Totality, foreign exceptions and termination over arbitrary workbooks (the rest of C06) are a quantifier over inputs and are NOT decided here. File timestamps are re-stamped at close from the simulated clock; importlib itself is real. Bytecode writing is enabled at run time (the sandbox exports PYTHONDONTWRITEBYTECODE=1).'),
    'C12': dict(engine='clocksim', design='4.4',
                technique='deterministic simulation: one translated criteria-matrix workbook evaluated along a seeded timeline of simulated instants/time zones (LD_PRELOAD clock shim) interleaved with set_cells edits of criterion/range cells; every TODAY-free cell must be time-invariant within an override epoch, equal to a pristine executor given the same overrides, and equal to a foreign process with another hash seed',
                text='Decides ONLY the necessary condition that the positions selected by SUMIF/SUMIFS/COUNTIFS/AVERAGEIFS are a function of the CURRENT ranges and criteria - not of the day on which the formula is evaluated and not of what the executor evaluated or was told before: every conditional-aggregate cell without TODAY() must give the identical outcome at all of 6-20 simulated instants (every month-length class, month/year ends, zone changes, auto-advancing clock) that lie in one override epoch, and on half of the runs, where cells that criteria and ranges read are edited through set_cells between instants and queries are permuted/repeated, the used executor must answer like a brand-new executor given the same overrides at the same instant; and at the first instant every cell must equal the same cell in a pristine foreign process with another string hash seed.',
                note='Does not decide whether the returned value is the right one (pure-input question, not claimed); the pristine executor runs the same generated class, so functional defects common to both cancel out. The defect this check found on the original tree (dateutil completing partial date texts from today) was repaired in 350f886; its minimised plan is replayed on every run (regress/).'),
    'C15': dict(engine='clocksim', design='4.5',
                technique='deterministic simulation: TODAY() dashboard driven through seeded clock jumps (forward/backward), zone and DST changes under an LD_PRELOAD clock shim; responses checked against independent calendar arithmetic on the simulated instant',
                text='Decides the clock-reachable part of C15: TODAY is the simulated local date at midnight in every zone/DST state, is not folded at translation or cached at construction, and YEAR/MONTH/DAY/DATE/EDATE/EOMONTH/DATEDIF(D,M,Y,YM)/NETWORKDAYS/IF computed from it follow the statement\'s definitions as simulated time passes (1971-2099), for both the generated class and a subclass of the importable base class.',
                note='The rest of the quantifier of C15 (all (y,m,d) triples in a wide box, all offsets -60..60, all holiday subsets) is an input sweep and is NOT claimed: a defect for dates not reachable from the dashboard goes unseen. Local time is evaluated by an independent POSIX-TZ evaluator cross-checked against libc for the same explicit instant. One deliberate relaxation: for DATEDIF M/Y/YM, when the start day does not exist in the end month and the end is that month\'s last day (31 Jan -> 28 Feb), both the day-of-month count and the clamping count are accepted, because the statement does not choose between them (DESIGN.md 4.5, 9.4). The oracle computes month lengths itself and reads no mutable standard-library table the library could have written (DESIGN.md 8 item 15).'),
    'C09': dict(engine='parsersim', design='4.3',
                technique='deterministic simulation: facade histories of 1-3 client threads under a seeded baton scheduler (sys.settrace line/opcode pre-emption), simulated disk with injected I/O faults, every response compared with a fresh Parser in a pristine foreign process',
                text='1-3 client threads, each with its own real Parser, share the process-global token tables (uninitialised at the start of every run: fork-per-run from a lane that never parsed) and one simulated disk; each client issues 3-12 facade calls (set path, set / replace / re-pass / clear the entry cell, enable / disable safety, get, write, replace a workbook on disk); the schedule is sequential, operation-level or line-level pre-emption (quanta from 1 event to PCT-style rare switches) drawn from the run\'s PRNG; workbooks come from a seeded corpus that covers every translator; 0-2 I/O faults (open failure, ENOSPC/EIO mid-write, error at close, EIO mid-read) and raw read/write caps are injected. Every get must equal, and every write that returns must leave exactly, the text a brand-new Parser produces for the settings in force — computed in another process with another hash seed, cwd and simulated date. Exploration: schedules, histories and fault placements are sampled, not enumerated.',
                note='Pre-emption granularity is a source line (an opcode in the token-table files on some runs) of excel2pycl/*; code inside openpyxl/dateutil is not pre-empted (it shares no state between clients). The reference runs the same library, so functional defects common to both paths cancel out. Relaxations are listed in DESIGN.md §4.3 (replaced workbook without set_path, fired read fault, workbook replacement is atomic). Corpus workbooks have at most ~40 cells: a defect that needs a dependency chain of a hundred cells or more (e.g. one involving the recursion limit) is out of reach.'),
}

NOT_YET = {
}

NA = {
    'C01': 'pure function of formula text and operand values: no schedule, clock, fault, hash order or call history can change it (overrides enter only as operand values); input enumeration is not simulation',
    'C02': 'text -> (sheet, column, row) decoding and area enumeration are pure functions of the reference string and the workbook; no seam involved',
    'C03': 'closure of the entry-point slice and cycle rejection are properties of the dependency graph; translation is a deterministic recursive descent with a per-call context (the history side of entry points is decided under C09)',
    'C05': 'accept/reject of a token stream is a pure function of the cell text',
    'C07': 'quoting/escaping of workbook text into source is a pure function of the strings',
    'C10': 'comparison results are a pure function of two operands (no dateutil, no clock on this path)',
    'C11': 'folds are pure functions of the cell contents',
    'C13': 'branch selection/laziness is a pure function of the nest and the truth assignment',
    'C14': 'lookups and ADDRESS/COLUMN/INDEX are pure functions of table, key and indices',
    'C16': 'rounding/percent are pure functions of a decimal',
    'C17': "LEFT/RIGHT/MID/SEARCH/VALUE/CONCATENATE are pure functions of their arguments (the one clock read under VALUE is strptime's first-call initialisation and does not reach the result)",
    'C18': "what the reader reports is a pure function of the file's bytes; short/failed reads are either absorbed by io.BufferedReader/zipfile or make the workbook unreadable, which the statement excludes",
    'C19': 'the gate is a pure function of workbook + one flag; its only history-dependent aspect (enabling the check after a cached translation) is stated by, and decided under, C09',
    'C20': 'agreement of two copies of the runtime is a differential over arguments; both copies read the same clock in the same way, so time cannot separate them',
}


def main():
    checks = []
    for pid, c in sorted(CLAIMED.items()):
        checks.append({
            'property_id': pid,
            'quick_cmd': '%s sim/check.py %s --tier quick' % (PY, pid),
            'thorough_cmd': '%s sim/check.py %s --tier thorough' % (PY, pid),
            'evidence_file': '/verif/evidence/%s.json' % pid,
            'replay_cmd_template': '%s sim/check.py %s --replay {path}' % (PY, pid),
            'engine': c['engine'],
            'level_claimed': {'category': 'exploration', 'text': c['text'], 'design_ref': 'DESIGN.md §' + c['design']},
            'level_note': c['note'],
            'technique': c['technique'],
        })
    engines = {}
    for pid, c in CLAIMED.items():
        engines.setdefault(c['engine'], []).append(pid)
    m = {
        'version': 1,
        'setup_cmd': 'mkdir -p build && gcc -shared -fPIC -O2 sim/simclock.c -o build/libsimclock.so -ldl && %s sim/check.py --selftest-seams' % PY,
        'hooks': {
            'guard': 'ESOFT_TECH_PY_BC_EXCEL2PYCL_VERIF',
            'enable': 'no source hook exists: every seam (hash seed, wall clock via LD_PRELOAD, open(), thread schedule via sys.settrace, fork-per-run) is applied from outside /repo; the guard name is reserved and unused',
            'baseline_off_cmd': 'cd /repo && /venv/bin/python -m pytest -ra -q -p no:cacheprovider --timeout=900 --continue-on-collection-errors',
            'source_commits': [],
            'add_only': True,
        },
        'engines': [{'name': n, 'path': 'sim/engines/%s.py' % n, 'serves_properties': sorted(p),
                     'kind_free_text': 'deterministic simulation engine (seeded plans, forked runs in hash-seed lanes, reference executions as oracle)'}
                    for n, p in sorted(engines.items())],
        'checks': checks,
        'notes': 'Technique family: deterministic simulation with fault injection. Exit 0 = held on everything explored (KNOWN-FINDING lines possible), 1 = VIOLATION line with a minimised replay file, 2 = harness error. Known findings: known_findings.json. VERIF_REPO redirects the checks to another tree (used for sensitivity runs).',
        'not_applicable': [{'property_id': k, 'reason': v} for k, v in sorted({**NA, **NOT_YET}.items())],
    }
    with open(os.path.join(ROOT, 'MANIFEST.json'), 'w') as fh:
        json.dump(m, fh, indent=1, ensure_ascii=False)
        fh.write('\n')


if __name__ == '__main__':
    main()
