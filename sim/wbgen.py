"""Workbook specs (plain JSON) and their materialisation with openpyxl.

spec = {"sheets": [{"title": str, "cells": {"A1": value, ...}}, ...]}
values are JSON scalars or {"$dt": iso} (see core.enc_value); a string starting with '=' is a formula.
Workbook *bytes* never enter a plan or a log (zip timestamps) — only specs do."""
import datetime
import io
import re

from core import enc_value, dec_value

_A1 = re.compile(r'^([A-Z]+)(\d+)$')


def col_letters(c: int) -> str:
    """0-based column index -> letters."""
    s = ''
    c += 1
    while c:
        c, rem = divmod(c - 1, 26)
        s = chr(65 + rem) + s
    return s


def col_index(letters: str) -> int:
    n = 0
    for ch in letters:
        n = n * 26 + (ord(ch) - 64)
    return n - 1


def a1(c: int, r: int) -> str:
    return '%s%d' % (col_letters(c), r + 1)


def parse_a1(s: str):
    m = _A1.match(s)
    return col_index(m.group(1)), int(m.group(2)) - 1


def used_range(sheet: dict):
    """(columns, rows) of the used range of a sheet spec (0,0 for an empty sheet)."""
    cols = rows = 0
    for k, v in sheet['cells'].items():
        if v is None:
            continue
        c, r = parse_a1(k)
        cols = max(cols, c + 1)
        rows = max(rows, r + 1)
    return cols, rows


def build_bytes(spec: dict) -> bytes:
    from openpyxl import Workbook
    wb = Workbook()
    first = True
    for sh in spec['sheets']:
        ws = wb.active if first else wb.create_sheet()
        first = False
        ws.title = sh['title']
        for k in sorted(sh['cells'], key=lambda s: (parse_a1(s)[1], parse_a1(s)[0])):
            v = dec_value(sh['cells'][k])
            if v is None:
                continue
            c, r = parse_a1(k)
            ws.cell(row=r + 1, column=c + 1, value=v)
    bio = io.BytesIO()
    wb.save(bio)
    return bio.getvalue()


def readback(data: bytes):
    """{(sheet_index, col, row): value} as openpyxl (not the library under test) reads the file."""
    from openpyxl import load_workbook
    wb = load_workbook(io.BytesIO(data))
    out = {}
    for si, ws in enumerate(wb.worksheets):
        for row in ws.iter_rows():
            for cell in row:
                if cell.value is not None:
                    out[(si, cell.column - 1, cell.row - 1)] = cell.value
    return out


def apply_overrides(spec: dict, overrides) -> dict:
    """W[O]: every overridden cell replaced by its constant.  overrides: [[sheet, col, row, value], ...]"""
    new = {'sheets': [{'title': s['title'], 'cells': dict(s['cells'])} for s in spec['sheets']]}
    for si, c, r, v in overrides:
        new['sheets'][si]['cells'][a1(c, r)] = v
    return new


# ----------------------------------------------------------------------------------------------
# constants that survive the xlsx round trip unchanged (DESIGN 4.1, probe-verified) —
# ints, floats with a fraction and <= 15 significant digits, non-empty strings not starting
# with '=', bools, whole-second datetimes.

STRINGS = ['ab', 'x', 'Zed', 'TRUE', '#N/A', ' pad ', 'é✓', '31', '5', 'ab c', 'may', 'k9', 'Ab', 'zz', '0', '#DIV/0!']
TITLES = ['S1', 'T 2', 'Лист3', 'Data', 'x_y', 'Q-4', 'Sheet']


def stable_float(r):
    while True:
        f = round(r.uniform(-50, 99), r.choice([1, 2, 3]))
        if f != int(f):
            return f


def stable_datetime(r):
    d = datetime.datetime(r.randint(1990, 2035), r.randint(1, 12), r.randint(1, 28))
    if r.random() < 0.3:
        d = d.replace(hour=r.randint(0, 23), minute=r.randint(0, 59), second=r.randint(0, 59))
    return d


def stable_const(r, kinds='ifsbd'):
    k = r.choice(kinds)
    if k == 'i':
        return r.choice([r.randint(-9, 40), r.randint(0, 5), 0, 1, 10 ** 12 + r.randint(0, 9)]) if r.random() < 0.9 else r.randint(-9, 40)
    if k == 'f':
        return stable_float(r)
    if k == 's':
        return r.choice(STRINGS)
    if k == 'b':
        return r.random() < 0.5
    if k == 'd':
        return enc_value(stable_datetime(r))
    raise ValueError(k)


def sheet_ref(title: str) -> str:
    """Prefix that addresses a sheet from a formula."""
    if re.fullmatch(r'\w+', title, flags=re.ASCII):
        return title + '!'
    return "'%s'!" % title


def spell(r, sheet_idx: int, title: str, c: int, row: int, style=None):
    """One of the address spellings the API accepts for (sheet, col, row), as [title, column, row]."""
    style = style or r.choice(['num', 'num', 'a1', 'a1idx', 'numtitle'])
    if style == 'num':
        return [sheet_idx, c, row]
    if style == 'a1':
        return [title, col_letters(c), str(row + 1)]
    if style == 'a1idx':
        return [sheet_idx, col_letters(c), str(row + 1)]
    if style == 'numtitle':
        return [title, c, row]
    raise ValueError(style)
