"""Baton scheduler: clients are real threads, but exactly one holds the baton.  sys.settrace
line events (opcode events in selected files) in frames under <repo>/excel2pycl/ are the
pre-emption points.  Who runs next is decided by the run's PRNG stream or by an explicit,
replayable switch list — never by the OS."""
import os
import random
import sys
import threading

QUANTA = [1, 1, 2, 3, 5, 8, 20, 50, 200]


class Scheduler:
    """
    mode: 'seq'  — one thread after the other, no pre-emption (pure history)
          'op'   — switches only at operation boundaries
          'line' — switches at line events inside the library (and at operation boundaries)
    explicit: list of [thread, own_event_no | 'end', next_thread]; when given it REPLACES the PRNG
              (entries are keyed by the thread's own event counter UNDER THE SAME mode — line events
              are only counted in mode 'line' — so removing another client's operation during
              minimisation does not shift them).
    """

    def __init__(self, n, mode='line', seed=0, explicit=None, lib_prefix=None, opcode_files=(), quanta=None,
                 max_events=5_000_000):
        self.n = n
        self.mode = mode
        self.rng = random.Random(seed)
        self.explicit = None
        if explicit is not None:
            self.explicit = {(e[0], e[1]): e[2] for e in explicit}
        self.prefix = lib_prefix
        self.opcode_files = tuple(opcode_files)
        self.quanta = quanta or QUANTA
        self.cv = threading.Condition()
        self.cur = None
        self.alive = set()
        self.events = [0] * n
        self.q = 1
        self.trace = []        # [tid, own_event_no|'end', next]
        self.locs = []         # parallel to trace: (file, func, line) of the pre-empted frame
        self.parked = {}       # tid -> loc where it is parked
        self.overlap_tokens = 0
        self.total_events = 0
        self.max_events = max_events
        self.aborted = False

    # -- tracing -----------------------------------------------------------------------------
    def _tracer(self, tid):
        prefix = self.prefix
        opfiles = self.opcode_files

        def local(frame, event, arg):
            if event == 'line' or event == 'opcode':
                self._yield(tid, 'line', frame)
            return local

        def glob(frame, event, arg):
            fn = frame.f_code.co_filename
            if fn.startswith(prefix):
                if opfiles and fn.endswith(opfiles):
                    frame.f_trace_opcodes = True
                return local
            return None

        return glob

    # -- decisions ---------------------------------------------------------------------------
    def _pick(self):
        return self.rng.choice(sorted(self.alive))

    def _yield(self, tid, kind, frame=None):
        if self.aborted:
            return
        self.events[tid] += 1
        self.total_events += 1
        if self.total_events > self.max_events:
            # step cap: stop pre-empting and let every client run to its end, one after the other.  Nothing is
            # raised into the code under test (an exception from here would surface inside the library and be
            # mistaken for its own); the engine discards a run whose scheduler says `aborted`.
            self.aborted = True
            return
        nxt = None
        if self.explicit is not None:
            nxt = self.explicit.get((tid, self.events[tid]))
            if nxt is not None and nxt not in self.alive:
                nxt = None
        elif self.mode == 'seq':
            nxt = None
        elif self.mode == 'op':
            if kind == 'op':
                nxt = self._pick()
        else:
            self.q -= 1
            if self.q <= 0 or kind == 'op':
                nxt = self._pick()
                self.q = self.rng.choice(self.quanta)
        if nxt is not None and nxt != tid:
            self._switch(tid, nxt, frame)

    def _loc(self, frame):
        if frame is None:
            return ('-', 'op', 0)
        return (os.path.basename(frame.f_code.co_filename), frame.f_code.co_name, frame.f_lineno)

    def _switch(self, tid, nxt, frame):
        loc = self._loc(frame)
        with self.cv:
            self.trace.append([tid, self.events[tid], nxt])
            self.locs.append(loc)
            self.parked[tid] = loc
            tl = self.parked.get(nxt)
            if tl and _in_token_parser(loc) and _in_token_parser(tl):
                self.overlap_tokens += 1
            self.cur = nxt
            self.cv.notify_all()
            while self.cur != tid:
                self.cv.wait()
            self.parked.pop(tid, None)

    def op_boundary(self, tid):
        """Called by client code between two operations (a possible switch point in every mode but 'seq')."""
        self._yield(tid, 'op', None)

    # -- running -----------------------------------------------------------------------------
    def run(self, fns):
        n = len(fns)
        assert n == self.n
        results = [None] * n

        def body(i):
            with self.cv:
                while self.cur != i:
                    self.cv.wait()
            if self.mode == 'line':
                sys.settrace(self._tracer(i))
            try:
                results[i] = ('ok', fns[i]())
            except BaseException as e:  # harness-level failure of a client script
                import traceback
                results[i] = ('error', traceback.format_exc())
            finally:
                sys.settrace(None)
                with self.cv:
                    self.alive.discard(i)
                    if self.alive:
                        nxt = None
                        if self.explicit is not None:
                            nxt = self.explicit.get((i, 'end'))
                            if nxt not in self.alive:
                                nxt = min(self.alive)
                        elif self.mode == 'seq':
                            nxt = min(self.alive)
                        else:
                            nxt = self._pick()
                        self.trace.append([i, 'end', nxt])
                        self.locs.append(('-', 'end', 0))
                        self.cur = nxt
                    self.cv.notify_all()

        threads = [threading.Thread(target=body, args=(i,), name='client-%d' % i, daemon=True) for i in range(n)]
        self.alive = set(range(n))
        for t in threads:
            t.start()
        with self.cv:
            first = 0
            if self.explicit is not None:
                first = self.explicit.get(('start', 0), 0)
            elif self.mode != 'seq':
                first = self._pick()
            self.trace.append(['start', 0, first])
            self.locs.append(('-', 'start', 0))
            self.cur = first
            self.cv.notify_all()
        for t in threads:
            t.join()
        return results


def _in_token_parser(loc):
    return loc[0] in ('composite_base_token.py', 'recursive_composite_base_token.py', 'base_token.py',
                      'regexp_base_token.py', 'lexer.py', 'ast_builder.py') or loc[0] == '__init__.py'


LAZY_WINDOWS = {('base_token.py', 'subclasses'), ('regexp_base_token.py', 'subclasses'),
                ('recursive_composite_base_token.py', 'get_token_sets'), ('base_token.py', '_remove_subclasses_lower_rank')}


def in_lazy_window(loc):
    return (loc[0], loc[1]) in LAZY_WINDOWS
