"""A lane: one OS process with a fixed PYTHONHASHSEED (and the clock shim preloaded) that has
imported every excel2pycl module but never parsed anything.  Every simulated run executes in a
child fork()ed from this pristine state, so process-global lazy tables are genuinely
uninitialised at the start of every run and nothing leaks from run to run.

With --ref the same program is a *reference server*: a second pristine process with a different
hash seed / cwd / (for parsersim) simulated date, which answers "what does the library do on a
clean path" requests, again each in a fresh fork.

Protocol: JSON lines on stdin/stdout."""
import importlib
import json
import os
import subprocess
import sys

sys.path.insert(0, os.path.dirname(os.path.abspath(__file__)))
import core  # noqa: E402


class RefClient:
    """Talks to this lane's reference server; memoises by request digest.  The cache lives in the
    lane (parent); forked children inherit it and report additions back."""

    def __init__(self, engine_name, hash_seed):
        self.engine_name = engine_name
        self.hash_seed = hash_seed
        self.proc = None
        self.cache = {}
        self.new = {}
        self.requests = 0
        self.hits = 0

    def start(self):
        env = dict(os.environ)
        env['PYTHONHASHSEED'] = str(self.hash_seed)
        env['VERIF_IS_REF'] = '1'
        self.proc = subprocess.Popen([sys.executable, os.path.abspath(__file__), self.engine_name, '--ref'],
                                     stdin=subprocess.PIPE, stdout=subprocess.PIPE, env=env, cwd='/')

    def __call__(self, request):
        key = core.digest(request)
        if key in self.cache:
            self.hits += 1
            return self.cache[key]
        if key in self.new:
            self.hits += 1
            return self.new[key]
        if self.proc is None:
            raise core.HarnessError('no reference server')
        self.requests += 1
        self.proc.stdin.write((json.dumps(request) + '\n').encode())
        self.proc.stdin.flush()
        line = self.proc.stdout.readline()
        if not line:
            raise core.HarnessError('reference server died')
        resp = json.loads(line)
        if isinstance(resp, dict) and 'harness_error' in resp:
            raise core.HarnessError('reference: ' + str(resp['harness_error']))
        self.new[key] = resp
        return resp

    def stop(self):
        if self.proc is not None:
            try:
                self.proc.stdin.close()
                self.proc.wait(timeout=5)
            except Exception:
                self.proc.kill()


def main():
    engine_name = sys.argv[1]
    is_ref = '--ref' in sys.argv[2:]
    core.setup_repo_path()
    import simfs
    core.import_everything()
    simfs.install()
    engine = importlib.import_module('engines.' + engine_name)
    out = sys.stdout.buffer
    inp = sys.stdin.buffer
    if is_ref:
        if hasattr(engine, 'ref_init'):
            engine.ref_init()
        for line in inp:
            req = json.loads(line)
            resp = core.run_forked(lambda: engine.ref_handle(req), timeout_s=120)
            out.write((json.dumps(resp, default=str) + '\n').encode())
            out.flush()
        return

    ref = None
    if getattr(engine, 'NEEDS_REF', False):
        my = int(os.environ.get('PYTHONHASHSEED', '0') or 0)
        ref = RefClient(engine_name, (my * 7 + 12345) % 4294967291 + 1)
        ref.start()
    if hasattr(engine, 'lane_init'):
        engine.lane_init()
    ctx = {'ref': ref, 'hash_seed': int(os.environ.get('PYTHONHASHSEED', '0') or 0),
           'lane_env': {k: os.environ.get(k) for k in ('LC_ALL', 'PYTHONUTF8', 'PYTHONCOERCECLOCALE') if os.environ.get(k) is not None}}
    for line in inp:
        req = json.loads(line)
        if req.get('cmd') == 'quit':
            break

        def job():
            res = engine.run(req, ctx)
            if ref is not None:
                res['_ref_new'] = ref.new
                res['_ref_stats'] = [ref.requests, ref.hits]
            return res

        timeout = float(req.get('timeout', 180))
        res = core.run_forked(job, timeout_s=timeout)
        if ref is not None and isinstance(res, dict):
            new = res.pop('_ref_new', None) or {}
            if len(ref.cache) < 20000:
                ref.cache.update(new)
            if 'harness_error' in res and ref.proc is not None and ref.proc.poll() is None:
                # a child killed mid-request may have left the reference pipe out of step: restart it
                ref.stop()
                ref.start()
        res['id'] = req.get('id')
        out.write((json.dumps(res, default=str) + '\n').encode())
        out.flush()
    if ref is not None:
        ref.stop()


if __name__ == '__main__':
    main()
