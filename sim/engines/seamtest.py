"""Setup-time pre-flight of the three seams (clock, file system, thread scheduler)."""
import io
import os

import core
import simfs

NAME = 'seamtest'
NEEDS_REF = False


def run(req, ctx):
    import simclock
    detail = {}
    from excel2pycl.src.tokens.composite_base_token import CompositeBaseToken
    from excel2pycl.src.tokens import ExpressionToken
    detail['lazy_tables_uninitialised'] = (not CompositeBaseToken.__dict__.get('_SUBCLASSES')) and not ExpressionToken.__dict__.get('_PROCESSED')
    simclock.preflight()
    detail['clock'] = 'every Python wall-clock API follows the shim'
    # fs: openpyxl through capped raw reads, write through short writes, injected ENOSPC
    import wbgen

    class P(simfs.Policy):
        def read_cap(self, path, pos, want):
            return 7

        def write_cap(self, path, written, want):
            if path.endswith('full.py') and written >= 100:
                raise OSError(28, 'No space left on device (injected)')
            return 5

    simfs.reset(P())
    spec = {'sheets': [{'title': 'S1', 'cells': {'A1': 1, 'B1': '=A1+1', 'C1': 'héllo ✓'}}]}
    simfs.DISK.put('/simfs/a.xlsx', wbgen.build_bytes(spec))
    from excel2pycl import Parser
    p = Parser().set_excel_file_path('/simfs/a.xlsx')
    p.write_translation('/simfs/out.py')
    ok = simfs.DISK.get('/simfs/out.py').decode('utf-8') == p.get_translation()
    try:
        p.write_translation('/simfs/full.py')
        enospc = False
    except OSError as e:
        enospc = e.errno == 28
    detail['fs'] = {'capped_reads_and_short_writes_exact': ok, 'enospc_surfaces': enospc}
    # scheduler: same seed => same trace; lazy tables uninitialised in a fresh fork
    import sched

    def once(seed):
        def job():
            return core.digest(Parser().set_excel_file_path('/simfs/a.xlsx').get_translation())
        s = sched.Scheduler(2, 'line', seed=seed, lib_prefix=os.path.join(core.REPO, 'excel2pycl') + os.sep)
        r = s.run([job, job])
        return core.digest([r, s.trace]), len(s.trace), s.total_events

    a = core.run_forked(lambda: once(5))
    b = core.run_forked(lambda: once(5))
    c = core.run_forked(lambda: once(6))
    detail['sched'] = {'same_seed_same_trace': a == b, 'switches': a[1], 'events': a[2], 'other_seed_differs': a[0] != c[0]}
    ok_all = ok and enospc and detail['lazy_tables_uninitialised'] and a == b and a[1] > 2
    return {'ok': bool(ok_all), 'detail': detail, 'digest': core.digest(detail), 'mismatches': []}
