"""loadsim — C06's clause "the returned text behaves the same whether loaded from the written file
or used as a class object", under rewrite histories of one output path and a simulated clock /
file-timestamp granularity.

Loading from a file goes through CPython's import machinery and its bytecode cache, whose
validity test involves TIME (source mtime truncated to whole seconds) and HISTORY (a cache entry
left by an earlier load of the same path).  System under simulation: real Parser.write_translation
into a real per-run scratch directory, real Executor.set_executed_class(class_file=...) ->
load_module -> importlib; simulated: the wall clock, and the file system's timestamping (files
are re-stamped at close from the simulated clock with granularity g)."""
import copy
import os
import shutil
import struct
import sys
import tempfile

import core
import simfs
import wbgen
from core import outcome_of_value, outcome_of_exc
from wbgen import a1

NAME = 'loadsim'
# probes that count as injected disturbances (reported under faults_fired in the evidence)
FAULT_PROBES = ('clock_stepped_backward', 'foreign_tool_left_cache_entry', 'rewrite_inside_one_timestamp_quantum_cache_entry_still_matches', 'pycache_directory_blocked', 'relative_path_after_chdir', 'symlink_repointed')
NEEDS_REF = False
BASE_NS = 1_718_000_000 * 10**9
RULE = {'': 'one run = 2-4 variants of one generated workbook x a seeded history of 6-20 operations (translate+write to one of 2-3 '
            'output paths (absolute, relative after a chdir, or through a symlink that is re-pointed), load the path into a fresh Executor and query every cell, clock jumps forward/backward) x a file-timestamp '
            'granularity and bytecode-cache configuration; non-trivial = some path is rewritten with another variant and loaded '
            'again; distinct = distinct plan digests among those'}
ASSUMPTIONS = {'': ['decides only the file-vs-class-object clause of C06 (totality over arbitrary workbooks is not claimed)',
                    'file modification stamps are re-stamped at close from the simulated clock (the kernel clock cannot be interposed); '
                    'the import system itself (cache lookup, validation, recompilation, cache write) is CPython\'s real code',
                    'bytecode writing is switched on at run time as in stock Python (the sandbox exports PYTHONDONTWRITEBYTECODE=1, which would mask the cache)']}

_LANE_DIR = None


def lane_init():
    global _LANE_DIR
    base = '/dev/shm' if os.path.isdir('/dev/shm') and os.access('/dev/shm', os.W_OK) else tempfile.gettempdir()
    # remove leftovers of lanes that were killed
    for n in os.listdir(base):
        if n.startswith('verif-loadsim-'):
            try:
                pid = int(n.split('-')[2])
                os.kill(pid, 0)
            except (ValueError, IndexError):
                continue
            except ProcessLookupError:
                shutil.rmtree(os.path.join(base, n), ignore_errors=True)
            except PermissionError:
                pass
    _LANE_DIR = os.path.join(base, 'verif-loadsim-%d' % os.getpid())
    os.makedirs(_LANE_DIR, exist_ok=True)
    import atexit
    atexit.register(lambda d=_LANE_DIR, p=os.getpid(): shutil.rmtree(d, ignore_errors=True) if os.getpid() == p else None)


# ----------------------------------------------------------------------------------------------

def _base_workbook(r):
    rows = r.randint(2, 5)
    cells = {}
    for rr in range(rows):
        cells[a1(0, rr)] = r.randint(1, 9)
        cells[a1(1, rr)] = r.choice([r.randint(1, 9), 'abc', 'xyz', 'é✓z', round(r.uniform(1, 9), 1)])
    fs = ['=A1+A2', '=SUM(A1:A%d)' % rows, '=A1&"k"', '=IF(A1>A2,"x","y")', '=B1', '=MAX(A1:A%d)*2' % rows, '=COUNT(A1:B%d)' % rows,
          '=A2*10', '=LEFT(B2,2)', '=AVERAGE(A1:A%d)' % rows]
    r.shuffle(fs)
    for i, f in enumerate(fs[:r.randint(2, 6)]):
        cells[a1(2, i)] = f
    # titles end up in the generated text; a file is compiled from BYTES (PEP 263 coding cookie in the first two lines,
    # BOM), a class object from a str - so some titles look like what a source-encoding declaration looks like
    return {'sheets': [{'title': r.choice(['S1', 'T 2', 'Лист', 'Geocoding', 'Export encoding=latin-1', 'Encoding']),
                        'cells': cells}]}


def _variant(r, spec, same_size):
    v = copy.deepcopy(spec)
    cells = v['sheets'][0]['cells']
    keys = [k for k, x in cells.items() if not (isinstance(x, str) and x.startswith('='))]
    for k in r.sample(keys, min(len(keys), r.choice([1, 1, 2]))):
        x = cells[k]
        if isinstance(x, bool):
            continue
        if isinstance(x, int):
            cells[k] = (x % 9) + 1 if same_size else x + 100
        elif isinstance(x, float):
            cells[k] = round((x + 1.1) % 9 + 1, 1) if same_size else x + 100.25
        elif isinstance(x, str):
            cells[k] = (x[:-1] + ('q' if x[-1] != 'q' else 'p')) if same_size else x + 'longer'
    return v


def gen_plan(seed, cfg):
    r = core.rng(seed, 'loadsim')
    swarm = {'granularity_ns': r.choice([1, 1000, 10**9, 10**9, 2 * 10**9]),
             'write_bytecode': r.random() < 0.85,
             'pycache_blocked': r.random() < 0.1,
             'backward': r.random() < 0.3,
             'reuse_parser': r.random() < 0.5,
             'same_size': r.random() < 0.8}
    # the process environment as history (own PRNG stream: older seeds keep their plans): output files of the
    # same NAME in different directories, and paths spelled relative to a working directory that changes
    re_ = core.rng(seed, 'loadsim', 'env')
    swarm['same_basename'] = re_.random() < 0.35
    swarm['relative'] = re_.random() < 0.35
    swarm['symlink'] = re_.random() < 0.3
    swarm.update(cfg.get('swarm', {}))
    base = _base_workbook(r)
    variants = [base] + [_variant(r, base, swarm['same_size'] or r.random() < 0.5) for _ in range(r.randint(1, 3))]
    n_paths = r.choice([1, 2, 2, 3])
    ops = []
    n = r.randint(6, 20)
    written = set()
    for i in range(n):
        k = r.random()
        if not written or k < 0.4:
            p = r.randrange(n_paths)
            ops.append({'op': 'write', 'wb': r.randrange(len(variants)), 'path': p})
            written.add(p)
        elif k < 0.70:
            ops.append({'op': 'load', 'path': r.choice(sorted(written))})
        elif k < 0.78:
            # another tool (compileall, an IDE, an older deployment) byte-compiles the file through the
            # stock import machinery and leaves a cache entry behind
            ops.append({'op': 'foreign_compile', 'path': r.choice(sorted(written))})
        else:
            d = r.choice([10**6, 10**6, 5 * 10**8, 10**9, 10**9 + 10**8, 3 * 10**9, 10 * 10**9, 300 * 10**9])
            if swarm['backward'] and r.random() < 0.35:
                d = -d
            ops.append({'op': 'clock', 'add_ns': d})
    for p in sorted(written):
        ops.append({'op': 'load', 'path': p})
    if swarm['symlink']:
        # the deployment idiom: a stable name ("current") that is re-pointed at one of the written files; loads go
        # through the link.  Inserted after the plan was drawn so older seeds keep their write/load/clock skeleton.
        out_ops = []
        linked = None
        w_so_far = set()
        for op in ops:
            out_ops.append(op)
            if op['op'] == 'write':
                w_so_far.add(op['path'])
            if w_so_far and re_.random() < 0.35:
                if linked is None or re_.random() < 0.5:
                    linked = re_.choice(sorted(w_so_far))
                    out_ops.append({'op': 'relink', 'to': linked})
                out_ops.append({'op': 'load', 'path': linked, 'via_link': True})
        if linked is not None:
            others = sorted(w_so_far - {linked})
            if others:
                linked = re_.choice(others)
                out_ops.append({'op': 'relink', 'to': linked})
            out_ops.append({'op': 'load', 'path': linked, 'via_link': True})
        ops = out_ops
    # behaviour includes overrides: on some loads the same set_cells batch (inside the used range and past it) is given to
    # the file-loaded executor and to the class-object executor, and everything is compared again.  The class object of
    # one text is built once per run and shared by all executors that use it, as an application would.
    for op in ops:
        if op['op'] == 'load' and re_.random() < 0.4:
            op['override'] = [[re_.randrange(3), re_.randrange(8), re_.choice([re_.randint(1, 50), 'ov', 2.5, True])]
                              for _ in range(re_.choice([1, 1, 2]))]
            if re_.random() < 0.5:
                op['reset_source'] = True
        if op['op'] == 'load' and not op.get('via_link') and not op.get('override') and re_.random() < 0.3:
            op['defer'] = True      # the executor is given its source now and asked its first question at the end of the run
    if swarm['relative']:
        for op in ops:
            if op['op'] in ('write', 'load') and re_.random() < 0.6:
                op['rel'] = True        # chdir into the file's directory first, then name it by its bare file name
    return {'engine': NAME, 'seed': seed, 'swarm': swarm, 'variants': variants, 'n_paths': n_paths, 'ops': ops, 'env': core.gen_env(seed)}


def _query_all(ex, spec, Cell, extra=()):
    out = {}
    cols, rows = wbgen.used_range(spec['sheets'][0])
    for cc_, rr_, _v in extra:
        cols, rows = max(cols, cc_ + 1), max(rows, rr_ + 1)
    for rr in range(rows + 1):
        for cc in range(cols + 1):
            try:
                out[a1(cc, rr)] = outcome_of_value(ex.get_cell(Cell(0, cc, rr)).value)
            except Exception as e:
                out[a1(cc, rr)] = outcome_of_exc(e)
    try:
        inst = ex.get_executed_class()
        out['titles'] = inst.get_titles()
        out['sizes'] = inst.get_sheets_size()
    except Exception as e:
        out['titles'] = outcome_of_exc(e)
    return out


def _pyc_header(path):
    """(flags, mtime, size) recorded in the cache entry of source `path`, or None."""
    import importlib.util
    try:
        pyc = importlib.util.cache_from_source(path)
        with simfs._real_open(pyc, 'rb') as fh:
            h = fh.read(16)
        return struct.unpack('<I', h[4:8])[0], struct.unpack('<I', h[8:12])[0], struct.unpack('<I', h[12:16])[0]
    except Exception:
        return None


def run(req, ctx):
    import simclock
    from excel2pycl import Parser, Executor, Cell
    plan = req.get('plan') or gen_plan(req['seed'], req.get('cfg', {}))
    swarm = plan['swarm']
    probes = {}

    def probe(name, n=1):
        probes[name] = probes.get(name, 0) + n

    for k_, v_ in core.apply_env(plan.get('env')).items():
        probe(k_, v_)
    if _LANE_DIR is None:
        lane_init()
    scratch = tempfile.mkdtemp(prefix='run-', dir=_LANE_DIR)
    g = swarm['granularity_ns']
    now = [BASE_NS]
    simclock.set_tz('UTC0')
    simclock.set_step_ns(0)
    simclock.set_ns(now[0])

    def stamp(path):
        t = (now[0] // g) * g
        os.utime(path, ns=(t, t))

    simfs.reset()
    simfs.DISK.real_hook = (scratch + os.sep, lambda f, path, mode: simfs.StampOnClose(f, path, mode, stamp))
    sys.dont_write_bytecode = not swarm['write_bytecode']
    if swarm['pycache_blocked']:
        probe('pycache_directory_blocked')
        # importlib must silently skip caching when it cannot create __pycache__ (a FILE is in the way;
        # permissions would not stop root)
        for d_ in sorted(set([scratch] + [os.path.join(scratch, 'd%d' % j) for j in range(plan['n_paths'])] if swarm.get('same_basename') else [scratch])):
            os.makedirs(d_, exist_ok=True)
            with simfs._real_open(os.path.join(d_, '__pycache__'), 'w') as fh:
                fh.write('not a directory')
    for i, v in enumerate(plan['variants']):
        simfs.DISK.put('/simfs/v%d.xlsx' % i, wbgen.build_bytes(v))
    if swarm.get('same_basename'):
        # same file name in different directories: d0/gen.py, d1/gen.py, ...
        paths = [os.path.join(scratch, 'd%d' % j, 'gen.py') for j in range(plan['n_paths'])]
    else:
        paths = [os.path.join(scratch, 'gen%d.py' % j) for j in range(plan['n_paths'])]
    for p_ in paths:
        os.makedirs(os.path.dirname(p_), exist_ok=True)
    cwd0 = os.getcwd()

    # the stable name: a directory link (current -> d<j>) when files share one name, else a file link (current.py -> gen<j>.py)
    link = os.path.join(scratch, 'current' if swarm.get('same_basename') else 'current.py')
    link_to = [None]

    def spelled(j, op):
        if op.get('via_link'):
            p_ = os.path.join(link, 'gen.py') if swarm.get('same_basename') else link
            if op.get('rel'):
                os.chdir(os.path.dirname(p_))
                probe('relative_path_after_chdir')
                return os.path.basename(p_)
            return p_
        return _spelled(j, op)

    def _spelled(j, op):
        """The path as the caller spells it: absolute, or (after a chdir into its directory) the bare file name."""
        if op.get('rel'):
            os.chdir(os.path.dirname(paths[j]))
            probe('relative_path_after_chdir')
            return os.path.basename(paths[j])
        return paths[j]
    current = {}      # path index -> (variant index, returned text)
    loaded_variant = {}   # path index -> variant index at last load (for the non-trivial rule)
    parser = Parser().disable_safety_check()
    klass_by_text = {}
    shared_ns = {}
    deferred = []
    log = []
    mism = []
    rewritten_and_reloaded = False
    sim_time = 0.0
    try:
        for i, op in enumerate(plan['ops']):
            if op['op'] == 'clock':
                now[0] += op['add_ns']
                sim_time += abs(op['add_ns']) / 1e9
                simclock.set_ns(now[0])
                if op['add_ns'] < 0:
                    probe('clock_stepped_backward')
                log.append({'i': i, 'op': 'clock'})
            elif op['op'] == 'relink':
                tgt = os.path.dirname(paths[op['to']]) if swarm.get('same_basename') else paths[op['to']]
                tmp_link = link + '.new'
                os.symlink(tgt, tmp_link)
                os.replace(tmp_link, link)            # atomic re-point, as deployment tools do
                if link_to[0] is not None and link_to[0] != op['to']:
                    probe('symlink_repointed')
                link_to[0] = op['to']
                log.append({'i': i, 'op': 'relink', 'to': op['to']})
            elif op['op'] == 'foreign_compile':
                j = op['path']
                if j in current:
                    import importlib.machinery
                    try:
                        importlib.machinery.SourceFileLoader('foreign_%d' % j, paths[j]).get_code('foreign_%d' % j)
                        if _pyc_header(paths[j]) is not None:
                            probe('foreign_tool_left_cache_entry')
                    except Exception:
                        pass
                log.append({'i': i, 'op': 'foreign_compile'})
            elif op['op'] == 'write':
                if not swarm['reuse_parser']:
                    parser = Parser().disable_safety_check()
                j = op['path']
                prev = current.get(j)
                try:
                    parser.set_excel_file_path('/simfs/v%d.xlsx' % op['wb'])
                    parser.write_translation(spelled(j, op))
                    text = parser.get_translation()
                    current[j] = (op['wb'], text)
                    out = ['ok', len(text.encode('utf-8'))]
                except Exception as e:
                    out = outcome_of_exc(e)
                    current.pop(j, None)
                    # nothing is injected in this engine: the translation exists as text (the class-object route works),
                    # so a write that raises makes the file route unusable where the other one is fine
                    mism.append({'key': 'write-translation-raised', 'op': i, 'path': j, 'variant': op['wb'], 'cells': [],
                                 'observed': {'write': out}, 'expected': {'write': ['ok']}, 'stale_cache_entry': False})
                if prev is not None and out[0] == 'ok':
                    st = os.stat(paths[j])
                    hdr = _pyc_header(paths[j])
                    same_size = len(prev[1].encode('utf-8')) == out[1]
                    if prev[1] != current[j][1]:
                        probe('path_rewritten_with_other_text')
                        probe('rewrite_equal_size' if same_size else 'rewrite_unequal_size')
                        if hdr is not None and hdr[0] == 0:
                            if hdr[1] == int(st.st_mtime) & 0xFFFFFFFF and hdr[2] == st.st_size & 0xFFFFFFFF:
                                probe('rewrite_inside_one_timestamp_quantum_cache_entry_still_matches')
                            elif hdr[2] != st.st_size & 0xFFFFFFFF:
                                probe('cache_invalidated_by_size')
                            else:
                                probe('cache_invalidated_by_mtime')
                log.append({'i': i, 'op': 'write', 'out': out})
            elif op['op'] == 'load':
                j = op['path']
                if op.get('via_link'):
                    j = link_to[0]           # whatever the link points at NOW (minimisation may have dropped a relink)
                    if j is not None:
                        probe('load_through_symlink')
                if j is None or j not in current:
                    log.append({'i': i, 'op': 'load', 'out': ['skipped']})
                    continue
                wb, text = current[j]
                spec = plan['variants'][wb]
                had_cache = _pyc_header(paths[j]) is not None
                ov = op.get('override') or []

                def behaviour(ex_, again):
                    b = _query_all(ex_, spec, Cell)
                    if ov:
                        ex_.set_cells([Cell(0, c_, r_, v_) for c_, r_, v_ in ov])
                        b['after_override'] = _query_all(ex_, spec, Cell, ov)
                        try:
                            g = ex_.get_sheet(0)
                            b['after_override']['grid'] = [len(g), [len(row_) for row_ in g]]
                        except Exception as e:
                            b['after_override']['grid'] = outcome_of_exc(e)
                    if op.get('reset_source'):
                        # the SAME source given to the same executor once more (same file again / same class object again)
                        try:
                            again(ex_)
                            b['after_same_source_again'] = _query_all(ex_, spec, Cell, ov)
                        except Exception as e:
                            b['after_same_source_again'] = {'load': outcome_of_exc(e)}
                    return b

                if op.get('defer'):
                    # both executors are bound to their source NOW; what happens to the path afterwards (rewritten,
                    # re-stamped) must not matter to an executor that already has its class
                    try:
                        spelled_path = spelled(j, op)
                        dex_file = Executor().set_executed_class(class_file=spelled_path)
                        if text not in klass_by_text:
                            exec(compile(text, '<class object>', 'exec'), shared_ns)
                            klass_by_text[text] = shared_ns['ExcelInPython']
                        dex_obj = Executor().set_executed_class(class_object=klass_by_text[text])
                        deferred.append((i, j, wb, spec, dex_file, dex_obj))
                        probe('executor_prepared_first_query_deferred')
                        log.append({'i': i, 'op': 'load', 'out': ['deferred']})
                        continue
                    except Exception as e:
                        pass
                try:
                    spelled_path = spelled(j, op)
                    ex_file = Executor().set_executed_class(class_file=spelled_path)
                    got = behaviour(ex_file, lambda e_: e_.set_executed_class(class_file=spelled_path))
                except Exception as e:
                    got = {'load': outcome_of_exc(e)}
                try:
                    if text not in klass_by_text:
                        # like an application that exec's every translation it gets into its own globals: the name
                        # ExcelInPython is rebound each time, the class objects obtained earlier stay in use
                        exec(compile(text, '<class object>', 'exec'), shared_ns)
                        klass_by_text[text] = shared_ns['ExcelInPython']
                        if len(klass_by_text) > 1:
                            probe('translations_execd_into_one_namespace')
                    else:
                        probe('class_object_shared_by_several_executors')
                    ex_obj = Executor().set_executed_class(class_object=klass_by_text[text])
                    want = behaviour(ex_obj, lambda e_: e_.set_executed_class(class_object=klass_by_text[text]))
                except Exception as e:
                    want = {'load': outcome_of_exc(e)}
                if ov:
                    probe('override_applied_to_both_routes')
                if had_cache:
                    probe('load_with_cache_entry_present')
                if swarm['write_bytecode'] and not swarm['pycache_blocked'] and _pyc_header(paths[j]) is not None and not had_cache:
                    probe('cache_entry_written')
                if j in loaded_variant and loaded_variant[j] != wb:
                    rewritten_and_reloaded = True
                    probe('reload_after_rewrite_with_other_variant')
                loaded_variant[j] = wb
                if op.get('via_link') and probes.get('symlink_repointed'):
                    rewritten_and_reloaded = True
                log.append({'i': i, 'op': 'load', 'out': got})
                if got != want:
                    diff = sorted(k for k in set(got) | set(want) if got.get(k) != want.get(k))
                    key = 'file-loaded-differs-from-class-object'
                    # is the file on disk the returned text?  (if not, that is C09's business, not C06's)
                    with simfs._real_open(paths[j], 'rb') as fh:
                        on_disk = fh.read()
                    if on_disk != text.encode('utf-8'):
                        key = 'written-file-differs-from-returned-text'
                    mism.append({'key': key, 'op': i, 'path': j, 'variant': wb, 'cells': diff[:5],
                                 'observed': {k: got.get(k) for k in diff[:3]}, 'expected': {k: want.get(k) for k in diff[:3]},
                                 'stale_cache_entry': bool(had_cache)})
        for i_, j_, wb_, spec_, dex_file, dex_obj in deferred:
            def first_query(ex_):
                try:
                    return _query_all(ex_, spec_, Cell)
                except Exception as e:
                    return {'load': outcome_of_exc(e)}
            got_, want_ = first_query(dex_file), first_query(dex_obj)
            log.append({'i': i_, 'op': 'deferred-first-query', 'out': got_})
            if got_ != want_:
                diff = sorted(k for k in set(got_) | set(want_) if got_.get(k) != want_.get(k))
                mism.append({'key': 'file-loaded-differs-from-class-object', 'op': i_, 'path': j_, 'variant': wb_, 'cells': diff[:5],
                             'observed': {k: got_.get(k) for k in diff[:3]}, 'expected': {k: want_.get(k) for k in diff[:3]},
                             'stale_cache_entry': False, 'why': 'executor given its source at this operation, first query at the end of the run'})
    finally:
        os.chdir(cwd0)
        sys.dont_write_bytecode = True
        simfs.DISK.real_hook = None
        shutil.rmtree(scratch, ignore_errors=True)
    seen = set()
    uniq = []
    for m in mism:
        if m['key'] not in seen:
            seen.add(m['key'])
            uniq.append(m)
    res = {'log': log, 'probes': probes, 'steps': len(plan['ops']), 'mismatches': uniq, 'nontrivial': rewritten_and_reloaded,
           'sig': core.digest([plan['variants'], plan['ops'], plan['swarm']]), 'sim_time_s': sim_time, 'digest': core.digest(log)}
    if req.get('want_plan') or res['mismatches']:
        res['plan'] = plan
    if not req.get('want_log'):
        res.pop('log', None)
    return res


def describe(plan, m):
    return '%s at op %s (path %s, variant %s, cache entry present: %s): cells %s observed %s expected %s' % (
        m['key'], m['op'], m['path'], m['variant'], m.get('stale_cache_entry'), m['cells'], m['observed'], m['expected'])


def shrink(plan):
    ops = plan['ops']
    n = len(ops)
    chunk = max(1, n // 2)
    while chunk >= 1:
        for i in range(0, n, chunk):
            keep = ops[:i] + ops[i + chunk:]
            if any(o['op'] == 'load' for o in keep) and any(o['op'] == 'write' for o in keep):
                p = copy.deepcopy(plan)
                p['ops'] = copy.deepcopy(keep)
                yield p
        chunk //= 2
    if any(o.get('rel') for o in ops):
        p = copy.deepcopy(plan)
        for o in p['ops']:
            o.pop('rel', None)
        yield p
    for i, o in enumerate(ops):
        if o.get('defer'):
            p = copy.deepcopy(plan)
            del p['ops'][i]['defer']
            yield p
        if o.get('reset_source'):
            p = copy.deepcopy(plan)
            del p['ops'][i]['reset_source']
            yield p
        if o.get('override'):
            p = copy.deepcopy(plan)
            del p['ops'][i]['override']
            p['ops'][i].pop('reset_source', None)
            yield p
    if any(o.get('via_link') for o in ops):
        p = copy.deepcopy(plan)
        for o in p['ops']:
            o.pop('via_link', None)
        p['ops'] = [o for o in p['ops'] if o['op'] != 'relink']
        yield p
    for k, v in (('reuse_parser', False), ('pycache_blocked', False), ('backward', False), ('same_basename', False)):
        if plan['swarm'].get(k) != v:
            p = copy.deepcopy(plan)
            p['swarm'][k] = v
            yield p
    # drop cells of all variants alike
    keys = list(plan['variants'][0]['sheets'][0]['cells'])
    for k in keys:
        if len(keys) <= 2:
            break
        p = copy.deepcopy(plan)
        for v in p['variants']:
            v['sheets'][0]['cells'].pop(k, None)
        yield p


def matches_finding(plan, mismatch, finding, rerun=None):
    return False
