"""execsim — histories of Executor calls (C04: overrides refine "edit the cell and re-translate";
C08: queries are pure, repeatable and all query APIs agree).

System under simulation: real Parser -> real generated class (exec'd from the returned text) ->
1..2 real Executors, driven by 1..3 logical clients interleaved at operation granularity by the
run's PRNG.  Simulated dimensions: the call history, the hash seed (lane), evaluation failures
in the middle of a history, and (C08) a clock step between two query bursts.
Oracles are reference *executions* in a pristine foreign process (other hash seed, no history)."""
import datetime
import re

import core
import simfs
import wbgen
from core import enc_value, dec_value, outcome_of_value, outcome_of_exc
from wbgen import a1, col_letters, sheet_ref

NAME = 'execsim'
# probes that count as injected disturbances (reported under faults_fired in the evidence)
FAULT_PROBES = ('env_calendar_firstweekday_changed', 'env_decimal_context_changed', 'env_warnings_filter_changed', 'env_root_logger_level_changed', 'evaluation_failed_mid_history', 'get_sheet_aborted_by_failing_cell', 'clock_step')
NEEDS_REF = True
WB_PATH = '/simfs/w.xlsx'
FROZEN_NS = 1_718_000_000 * 10**9   # 2024-06-10T06:13:20Z — the frozen instant of execsim runs


# ----------------------------------------------------------------------------------------------
# workbook generator

class _G:
    """Formula-template helper bound to one (rng, spec-in-progress)."""

    def __init__(self, r, titles, dims, here, wholecol, pad=0):
        self.r, self.titles, self.dims, self.here, self.wholecol = r, titles, dims, here, wholecol
        self.pad = pad      # bounded ranges may run this many rows past the used area ("A1:A1000 over a dozen rows")

    def _end(self, last_row_index):
        """1-based last row of a bounded range whose data end at last_row_index (0-based)."""
        return last_row_index + 1 + (self.pad if self.pad and self.r.random() < 0.6 else 0)

    def _sheet(self):
        # mostly the formula's own sheet
        if len(self.titles) > 1 and self.r.random() < 0.25:
            return self.r.randrange(len(self.titles))
        return self.here

    def _pref(self, s):
        if s == self.here and self.r.random() < 0.8:
            return ''
        p = sheet_ref(self.titles[s])
        if p.startswith("'"):
            # the library's reference regexes mis-read a formula with two quoted sheet prefixes (C02's
            # business, not ours): at most one per formula, later ones fall back to the own sheet
            if getattr(self, 'quoted_used', False):
                return ''
            self.quoted_used = True
        return p

    def _d(self, s):
        c, rws = self.dims[s]
        return max(1, min(c, 3)), max(1, rws)

    def cell(self, s=None):
        s = self._sheet() if s is None else s
        c, rws = self._d(s)
        cc, rr = self.r.randrange(c), self.r.randrange(rws)
        dollar = self.r.choice(['', '', '', '$'])
        return '%s%s%s%s%d' % (self._pref(s), dollar, col_letters(cc), dollar, rr + 1)

    def colrange(self, s=None, full=False, plain=False):
        s = self._sheet() if s is None else s
        c, rws = self._d(s)
        cc = self.r.randrange(c)
        if self.wholecol and not plain and self.r.random() < 0.35:
            return '%s%s:%s' % (self._pref(s), col_letters(cc), col_letters(cc))
        r0 = 0 if full else self.r.randrange(rws)
        r1 = rws - 1 if full else self.r.randrange(r0, rws)
        end = self._end(r1) if (self.pad and r1 == rws - 1) else r1 + 1
        return '%s%s%d:%s%d' % ('' if plain else self._pref(s), col_letters(cc), r0 + 1, col_letters(cc), end)

    def wholecols(self, width, *forms):
        """A formula over whole columns of the own sheet: width 2 -> one two-column area (A:B); width 0 -> as many
        single whole columns (A:A) as the form has slots.  Falls back to a bounded form when the run has no
        whole-column references."""
        c, rws = self._d(self.here)
        form = self.r.choice(forms)
        n = form.count('%s')
        if not self.wholecol:
            return form % tuple(self.own_col() for _ in range(n))
        if width == 2:
            c0 = self.r.randrange(max(1, c - 1))
            return form % (('%s:%s' % (col_letters(c0), col_letters(min(c0 + 1, 2))),) * n)
        return form % tuple('%s:%s' % ((col_letters(self.r.randrange(c)),) * 2) for _ in range(n))

    def own_col(self):
        """Unprefixed, bounded, full-height column of the formula's own sheet (SUMIF-style functions
        derive one range from another and choke on prefixes / whole columns)."""
        c, rws = self._d(self.here)
        if not hasattr(self, '_own_end'):
            self._own_end = self._end(rws - 1)          # one length for all ranges of one formula (SUMIFS needs equal sizes)
        col = col_letters(self.r.randrange(c))
        return '%s1:%s%d' % (col, col, self._own_end)

    def own_cell(self):
        c, rws = self._d(self.here)
        return '%s%d' % (col_letters(self.r.randrange(c)), self.r.randrange(rws) + 1)

    def rowrange(self, s=None):
        s = self._sheet() if s is None else s
        c, rws = self._d(s)
        rr = self.r.randrange(rws)
        c0 = self.r.randrange(c)
        c1 = self.r.randrange(c0, c)
        return '%s%s%d:%s%d' % (self._pref(s), col_letters(c0), rr + 1, col_letters(c1), rr + 1)

    def rect(self, s=None, mincols=1):
        s = self._sheet() if s is None else s
        c, rws = self._d(s)
        c0 = 0 if mincols > 1 else self.r.randrange(c)
        c1 = max(c0 + mincols - 1, self.r.randrange(c0, c))
        c1 = min(c1, max(c, mincols) - 1)
        r0 = self.r.randrange(rws)
        r1 = self.r.randrange(r0, rws)
        return '%s%s%d:%s%d' % (self._pref(s), col_letters(c0), r0 + 1, col_letters(c1), r1 + 1), c1 - c0 + 1, r1 - r0 + 1

    def area(self):
        k = self.r.random()
        if k < 0.4:
            return self.colrange()
        if k < 0.6:
            return self.rowrange()
        return self.rect()[0]


def _templates():
    T = []

    def t(name, fn, weight=1):
        T.append((name, fn, weight))

    t('add', lambda g: '=%s+%s*2' % (g.cell(), g.cell()), 3)
    t('sub', lambda g: '=%s-%s' % (g.cell(), g.cell()), 2)
    t('paren', lambda g: '=(%s+%s)*%s' % (g.cell(), g.cell(), g.cell()))
    t('cmp', lambda g: '=%s%s%s' % (g.cell(), g.r.choice(['>', '<', '=', '<>', '>=', '<=']), g.cell()), 2)
    t('amp', lambda g: '=%s&"k"' % g.cell())
    t('amp2', lambda g: '=%s&%s' % (g.cell(), g.cell()))
    t('if', lambda g: '=IF(%s>%s,"x",%s)' % (g.cell(), g.cell(), g.cell()), 2)
    t('if2', lambda g: '=IF(%s=%s,%s+1,%s)' % (g.cell(), g.cell(), g.cell(), g.cell()))
    t('iferror', lambda g: '=IFERROR(%s/%s,-1)' % (g.cell(), g.cell()), 2)
    t('sum', lambda g: '=SUM(%s)' % g.area(), 4)
    t('sum2', lambda g: '=SUM(%s,%s)' % (g.area(), g.cell()))
    t('average', lambda g: '=AVERAGE(%s)' % g.area(), 2)
    t('min', lambda g: '=MIN(%s)' % g.area())
    t('max', lambda g: '=MAX(%s)&"k"' % g.area())
    t('count', lambda g: '=COUNT(%s)' % g.area(), 2)
    t('countblank', lambda g: '=COUNTBLANK(%s)' % g.colrange())
    t('sumif', lambda g: '=SUMIF(%s,">2",%s)' % (g.own_col(), g.own_col()))
    t('countifs', lambda g: '=COUNTIFS(%s,">0")' % g.colrange(), 2)
    t('countifs_eq', lambda g: '=COUNTIFS(%s,%s)' % (g.colrange(), g.cell()), 2)
    t('countifs_opcell', lambda g: '=COUNTIFS(%s,"%s"&%s)' % (g.colrange(), g.r.choice(['>', '<', '>=', '<=', '<>']), g.cell()), 2)
    t('sumif_opcell', lambda g: '=SUMIF(%s,"%s"&%s,%s)' % (g.own_col(), g.r.choice(['>', '<', '<>']), g.own_cell(), g.own_col()), 2)
    t('sumif_cell', lambda g: '=SUMIF(%s,%s,%s)' % (g.own_col(), g.own_cell(), g.own_col()))
    t('sumifs_cell', lambda g: '=SUMIFS(%s,%s,%s)' % (g.own_col(), g.own_col(), g.own_cell()), 2)
    t('averageifs_opcell', lambda g: '=AVERAGEIFS(%s,%s,"%s"&%s)' % (g.own_col(), g.own_col(), g.r.choice(['>', '<', '>=']), g.own_cell()))
    t('wc_sum2', lambda g: g.wholecols(2, '=SUM(%s)', '=COUNT(%s)', '=MAX(%s)'))
    t('wc_sumif', lambda g: g.wholecols(0, '=SUMIF(%s,">1",%s)', '=COUNTIFS(%s,">0",%s,"<>x")', '=SUMIFS(%s,%s,">0")'))
    t('wc_index', lambda g: g.wholecols(2, '=INDEX(%s,2,1)', '=MATCH(%s,%%s,0)' % g.cell()) if False else g.wholecols(2, '=INDEX(%s,2,1)'))
    t('vlookup', lambda g: (lambda a: '=VLOOKUP(%s,%s,%d,FALSE())' % (g.cell(), a[0], g.r.randint(1, a[1])))(g.rect(mincols=2)), 2)
    t('index', lambda g: (lambda a: '=INDEX(%s,%d,%d)' % (a[0], g.r.randint(1, a[2]), g.r.randint(1, a[1])))(g.rect()), 2)
    t('match', lambda g: '=MATCH(%s,%s,0)' % (g.cell(), g.colrange()))
    t('round', lambda g: '=ROUND(%s/3,2)' % g.cell())
    t('roundup', lambda g: '=ROUNDUP(%s/7,%d)' % (g.cell(), g.r.choice([0, 1, 2])))
    t('rounddown', lambda g: '=ROUNDDOWN(%s*1.0725,%d)' % (g.cell(), g.r.choice([0, 1, 2])))
    t('round_lit', lambda g: '=ROUND(%s*%s,1)' % (g.cell(), g.r.choice(['2.34', '2.36', '0.125', '3.14159265358979'])))
    t('fraclit', lambda g: '=%s+%s' % (g.cell(), g.r.choice(['3.14159265358979', '1.0725', '100.125', '2.5e-3', '0.1'])))
    t('left', lambda g: '=LEFT(%s,1)' % g.cell())
    t('mid', lambda g: '=MID(%s,2,2)' % g.cell())
    t('year', lambda g: '=YEAR(%s)' % g.cell())
    t('date', lambda g: '=DATE(2020,%s,%s)' % (g.cell(), g.cell()))
    t('or', lambda g: '=OR(%s>1,%s<0)' % (g.cell(), g.cell()))
    t('pct', lambda g: '=%s*10%%' % g.cell())
    t('neg', lambda g: '=-%s+%s' % (g.cell(), g.cell()))
    return T


TEMPLATES = _templates()
POISON = ['=1/0', '={c}/{b}', '=SUM({c})/{b}', '=AVERAGE({b})']


def gen_workbook(r, cfg):
    """Returns (spec, meta).  Data area: columns A..C; formula columns D..E reference the data area
    and EARLIER formula cells only (acyclic by construction)."""
    n_sheets = r.choice([1, 1, 2, 2, 3])
    titles = r.sample(wbgen.TITLES, n_sheets)
    wholecol = cfg.get('wholecol', True)
    dims = []
    sheets = []
    for s in range(n_sheets):
        rows = r.randint(2, 6)
        cols = r.randint(1, 3)
        cells = {}
        kinds = r.choice(['iiiffs', 'iiifsbd', 'ifsbd', 'iiii'])
        gap = r.choice([0.0, 0.15, 0.3])
        for rr in range(rows):
            for cc in range(cols):
                if r.random() >= gap:
                    cells[a1(cc, rr)] = wbgen.stable_const(r, kinds)
        if not cells:
            cells['A1'] = r.randint(1, 9)
        dims.append((cols, rows))
        sheets.append({'title': titles[s], 'cells': cells})
    meta = {'formulas': [], 'poisoned': [], 'blank_in_range': []}
    # formulas
    budget = r.randint(3, 14)
    if cfg.get('only_templates'):
        budget = len(cfg['only_templates'])
    for s in range(n_sheets):
        n_here = budget if s == 0 else r.randint(0, 3)
        fcol = 3
        prev = []
        for i in range(n_here):
            rr = i % 8
            cc = fcol + i // 8
            g = _G(r, titles, dims, s, wholecol, cfg.get('pad', 0))
            names = [t[0] for t in TEMPLATES]
            weights = [t[2] for t in TEMPLATES]
            k = r.random()
            if cfg.get('only_templates') and s == 0:
                k = 1.0
            if prev and k < 0.22:
                # formula over earlier formulas: fan-in / chains
                p1, p2 = r.choice(prev), r.choice(prev)
                f = r.choice(['=%s+%s' % (p1, p2), '=SUM(%s,%s)' % (p1, p2), '=IF(%s>0,%s,0)' % (p1, p2), '=%s&"z"' % p1,
                              '=IFERROR(%s,-2)' % p1])
            elif cfg.get('poison', True) and k < 0.32:
                blank = _find_blank(r, sheets[s], dims[s])
                f = r.choice(POISON).format(c=g.cell(s).split('!')[-1], b=blank)
                meta['poisoned'].append([s, cc, rr])
            elif cfg.get('today', False) and k < 0.40:
                f = r.choice(['=TODAY()', '=YEAR(TODAY())', '=DAY(TODAY())+%s' % g.cell(), '=IF(TODAY()>%s,1,2)' % g.cell()])
            else:
                name = r.choices(names, weights)[0]
                if cfg.get('only_templates') and s == 0 and i < len(cfg['only_templates']):
                    name = cfg['only_templates'][i]           # catalog workbooks: these templates, once each, in order
                f = dict((t[0], t[1]) for t in TEMPLATES)[name](g)
            sheets[s]['cells'][a1(cc, rr)] = f
            prev.append(a1(cc, rr))
            meta['formulas'].append([s, cc, rr])
    spec = {'sheets': sheets}
    return spec, meta


def _find_blank(r, sheet, dim):
    cols, rows = dim
    blanks = [a1(c, rr) for rr in range(rows) for c in range(cols) if a1(c, rr) not in sheet['cells']]
    if blanks:
        return r.choice(blanks)
    # a never-written cell just outside the data area but inside a plausible grid
    return a1(2, rows + 1) if cols <= 2 else a1(cols - 1, rows + 2)


def spec_dims(spec):
    return [list(wbgen.used_range(sh)) for sh in spec['sheets']]


WHOLECOL_RE = re.compile(r"((?:'(?P<q>[^']*)'|(?P<u>\w+))!)?\$?(?P<c1>[A-Z]+):\$?(?P<c2>[A-Z]+)(?![\d$A-Z(])")


def wholecol_refs(spec):
    """[(formula_sheet, target_sheet, col_lo, col_hi)] for every whole-column reference."""
    titles = [s['title'] for s in spec['sheets']]
    out = []
    for si, sh in enumerate(spec['sheets']):
        for k, v in sh['cells'].items():
            if isinstance(v, str) and v.startswith('='):
                for m in WHOLECOL_RE.finditer(v):
                    t = m.group('q') or m.group('u')
                    ts = titles.index(t) if t in titles else si
                    out.append((si, ts, wbgen.col_index(m.group('c1')), wbgen.col_index(m.group('c2'))))
    return out


REF_RE = re.compile(r"((?:'(?P<q>[^']*)'|(?P<u>\w+))!)?\$?(?P<c1>[A-Z]+)\$?(?P<r1>\d+)(?::\$?(?P<c2>[A-Z]+)\$?(?P<r2>\d+))?")


def precedents(spec):
    """{(s,c,r) of a formula cell: set of (s,c,r) it reads, transitively} — by regex over the formula
    text (bounded areas and single cells; whole columns contribute their used rows)."""
    titles = [sh['title'] for sh in spec['sheets']]
    dims = spec_dims(spec)
    direct = {}
    for si, sh in enumerate(spec['sheets']):
        for k, v in sh['cells'].items():
            if not (isinstance(v, str) and v.startswith('=')):
                continue
            c0, r0 = wbgen.parse_a1(k)
            acc = set()
            text = re.sub(r'"[^"]*"', '""', v)
            for m in REF_RE.finditer(text):
                t = m.group('q') or m.group('u')
                ts = titles.index(t) if t in titles else si
                ca, ra = wbgen.col_index(m.group('c1')), int(m.group('r1')) - 1
                cb, rb = (wbgen.col_index(m.group('c2')), int(m.group('r2')) - 1) if m.group('c2') else (ca, ra)
                for cc in range(min(ca, cb), max(ca, cb) + 1):
                    for rr in range(min(ra, rb), max(ra, rb) + 1):
                        if (cb - ca + 1) * (rb - ra + 1) <= 64:
                            acc.add((ts, cc, rr))
            for m in WHOLECOL_RE.finditer(text):
                t = m.group('q') or m.group('u')
                ts = titles.index(t) if t in titles else si
                for cc in range(wbgen.col_index(m.group('c1')), wbgen.col_index(m.group('c2')) + 1):
                    for rr in range(dims[ts][1]):
                        acc.add((ts, cc, rr))
            direct[(si, c0, r0)] = acc
    # transitive closure
    closed = {}
    for f in direct:
        seen, todo = set(), list(direct[f])
        while todo:
            x = todo.pop()
            if x in seen:
                continue
            seen.add(x)
            todo.extend(direct.get(x, ()))
        closed[f] = seen
    return closed


# ----------------------------------------------------------------------------------------------
# plan generation

def _target(r, spec, dims, meta, beyond, written, prec=None):
    """Pick an override target (sheet, col, row)."""
    k = r.random()
    if prec and r.random() < 0.3:
        # something a formula actually reads (a constant, a blank inside a referenced area, another formula)
        f = r.choice(sorted(prec))
        if prec[f]:
            return list(r.choice(sorted(prec[f])))
    if written and k < 0.35:
        return list(r.choice(written))
    s = r.randrange(len(spec['sheets']))
    cols, rows = dims[s]
    if meta['formulas'] and k < 0.55:
        return list(r.choice(meta['formulas']))
    if beyond and k < 0.70:
        if r.random() < 0.5:
            return [s, r.randrange(max(cols, 1)), rows + r.randint(0, 3)]       # rows past the used range
        return [s, cols + r.randint(0, 2), r.randrange(max(rows, 1) + 2)]       # columns past it
    return [s, r.randrange(max(cols, 1)), r.randrange(max(rows, 1))]


def _value(r, prev=None):
    if prev is not None and r.random() < 0.15:
        # equal-hash / equal-compare values of different type
        if prev in (1, True) and not isinstance(prev, float):
            return (not isinstance(prev, bool)) if prev == 1 else prev
        if prev in (0, False) and not isinstance(prev, float):
            return False if prev is not False else 0
    return wbgen.stable_const(r, 'iiiffssbd')


def gen_plan(seed, cfg):
    mode = cfg.get('mode', 'c04')
    r = core.rng(seed, 'execsim', mode)
    swarm = {
        'wholecol': r.random() < 0.5,
        'beyond': r.random() < 0.5,
        'poison': r.random() < 0.7,
        'today': mode == 'c08' and r.random() < 0.5,
        'reuse': r.random() < 0.4,
        'n_ex': r.choice([1, 1, 2]),
        'n_clients': r.choice([1, 2, 3]),
        'dup_in_batch': r.random() < 0.25,
        'many': r.random() < 0.2,
    }
    swarm['threads'] = core.rng(seed, 'execsim', mode, 'threads').random() < 0.3
    rp = core.rng(seed, 'execsim', mode, 'pad')
    swarm['pad'] = rp.choice([0, 0, 1, 2, 3]) if swarm['beyond'] else 0
    swarm.update(cfg.get('swarm', {}))
    spec, meta = gen_workbook(r, swarm)
    dims = spec_dims(spec)
    titles = [s['title'] for s in spec['sheets']]
    prec = precedents(spec)
    dependants = {}
    for f, ps in prec.items():
        for p in ps:
            dependants.setdefault(p, []).append(list(f))
    plan = {'engine': NAME, 'mode': mode, 'seed': seed, 'swarm': swarm, 'spec': spec, 'meta': meta, 'ops': [], 'env': core.gen_env(seed)}
    ops = plan['ops']
    written = []          # targets written so far (any executor)
    last = {}             # (ex, target) -> last value

    def addr(tg, style=None):
        return wbgen.spell(r, tg[0], titles[tg[0]], tg[1], tg[2], style)

    def query_target():
        k = r.random()
        if written and k < 0.2:
            return list(r.choice(written))
        if meta['formulas'] and k < 0.7:
            return list(r.choice(meta['formulas']))
        s = r.randrange(len(titles))
        return [s, r.randrange(dims[s][0] + 2), r.randrange(dims[s][1] + 2)]

    def gen_set(ex, client):
        n = r.choice([1, 1, 1, 2, 2, 3, 4]) if not swarm['many'] else r.randint(3, 12)
        cells = []
        seen = set()
        for _ in range(n):
            tg = _target(r, spec, dims, meta, swarm['beyond'], written, prec)
            if tuple(tg) in seen:
                continue
            seen.add(tuple(tg))
            v = _value(r, last.get((ex, tuple(tg))))
            cells.append({'at': addr(tg), 'tg': tg, 'v': v})
        if swarm['dup_in_batch'] and cells and r.random() < 0.5:
            c0 = r.choice(cells)
            v2 = _value(r, c0['v'] if not isinstance(c0['v'], dict) else None)
            cells.insert(r.randrange(len(cells) + 1), {'at': addr(c0['tg']), 'tg': c0['tg'], 'v': v2})
        for c in cells:
            last[(ex, tuple(c['tg']))] = c['v'] if not isinstance(c['v'], dict) else None
            if c['tg'] not in written:
                written.append(c['tg'])
        return {'op': 'set', 'ex': ex, 'client': client, 'cells': cells}

    def gen_query(ex, client):
        k = r.random()
        if k < 0.6:
            tg = query_target()
            return {'op': 'get', 'ex': ex, 'client': client, 'at': addr(tg), 'tg': tg}
        if k < 0.8:
            tgs = [query_target() for _ in range(r.randint(2, 5))]
            if r.random() < 0.4:
                tgs.append(list(tgs[0]))
            return {'op': 'gets', 'ex': ex, 'client': client, 'cells': [{'at': addr(t), 'tg': t} for t in tgs]}
        s = r.randrange(len(titles))
        return {'op': 'sheet', 'ex': ex, 'client': client, 'sheet': r.choice([s, titles[s]]), 's': s}

    if mode == 'c04':
        n_ops = r.randint(3, 14) * swarm['n_clients']
        n_ops = min(n_ops, 30)
        for i in range(n_ops):
            ex = r.randrange(swarm['n_ex'])
            client = r.randrange(swarm['n_clients'])
            if i == 0 or r.random() < 0.45:
                st = gen_set(ex, client)
                deps = [d for c in st['cells'] for d in dependants.get(tuple(c['tg']), [])]
                if deps and r.random() < 0.5:
                    # motif: query a dependant, override one of its precedents, query the same dependant again
                    d = r.choice(deps)
                    ops.append({'op': 'get', 'ex': ex, 'client': client, 'at': addr(d), 'tg': d})
                    ops.append(st)
                    ops.append({'op': 'get', 'ex': ex, 'client': r.randrange(swarm['n_clients']), 'at': addr(d), 'tg': d})
                else:
                    ops.append(st)
            else:
                ops.append(gen_query(ex, client))
        ops.append(gen_query(0, 0))
        # callers that re-send state they sent before (own stream): right after a batch, the same batch again - whole,
        # a part of it, or an empty list - with or without a query in between.  Nothing may change, and nothing
        # that was pending may get lost.
        rs = core.rng(seed, 'execsim', 'c04', 'resend')
        out_ops = []
        for op in ops:
            out_ops.append(op)
            if op['op'] == 'set' and rs.random() < 0.2:
                k = rs.random()
                import copy as _copy
                if k < 0.25:
                    again = {'op': 'set', 'ex': op['ex'], 'client': op['client'], 'cells': []}
                elif k < 0.6:
                    again = _copy.deepcopy(op)
                else:
                    again = _copy.deepcopy(op)
                    again['cells'] = again['cells'][:max(1, len(again['cells']) // 2)]
                again['resend'] = True
                if rs.random() < 0.3 and op['cells']:
                    c0 = rs.choice(op['cells'])
                    out_ops.append({'op': 'get', 'ex': op['ex'], 'client': op['client'], 'at': list(c0['tg']), 'tg': list(c0['tg'])})
                out_ops.append(again)
        ops[:] = out_ops
        if swarm['reuse']:
            _mark_reuse(r, ops)
    else:  # c08: overrides once (one write per cell per executor), then queries only
        for ex in range(swarm['n_ex']):
            seen = set()
            cells = []
            for _ in range(r.randint(0, 6) if not swarm['many'] else r.randint(8, 14)):
                tg = _target(r, spec, dims, meta, swarm['beyond'], [])
                if tuple(tg) in seen:
                    continue
                seen.add(tuple(tg))
                cells.append({'at': addr(tg), 'tg': tg, 'v': _value(r)})
                if tg not in written:
                    written.append(tg)
            if cells:
                half = r.randrange(len(cells) + 1) if r.random() < 0.3 else len(cells)
                ops.append({'op': 'set', 'ex': ex, 'client': 0, 'cells': cells[:half]}) if cells[:half] else None
                if cells[half:]:
                    ops.append({'op': 'set', 'ex': ex, 'client': 0, 'cells': cells[half:]})
        plan['n_setup'] = len(ops)
        nq = r.randint(20, 80) if r.random() < 0.3 else r.randint(6, 30)
        jump_at = r.randrange(nq) if (swarm['today'] and r.random() < 0.6) else None
        # override epochs (own stream): on some runs further cells - never one that is overridden already, so "last
        # write wins" (C04) is not involved - are overridden between two query bursts; within every epoch the overrides
        # are fixed, and what was queried in earlier epochs is part of "whatever was queried before"
        re_ = core.rng(seed, 'execsim', 'c08', 'epochs')
        epoch_at = sorted(re_.sample(range(1, nq), min(nq - 1, re_.choice([0, 0, 1, 1, 2])))) if nq > 2 else []
        taken = {ex: set(tuple(c['tg']) for op in ops if op['ex'] == ex for c in op['cells']) for ex in range(swarm['n_ex'])}
        for i in range(nq):
            if jump_at is not None and i == jump_at:
                ops.append({'op': 'clock', 'add_s': r.choice([86400, 86400 * 31, 3600 * 30, 86400 * 366])})
            if i in epoch_at:
                ex = re_.randrange(swarm['n_ex'])
                cells = []
                for _ in range(re_.randint(1, 3)):
                    tg = _target(re_, spec, dims, meta, swarm['beyond'] or re_.random() < 0.4, [], prec)
                    if tuple(tg) in taken[ex]:
                        continue
                    taken[ex].add(tuple(tg))
                    cells.append({'at': wbgen.spell(re_, tg[0], titles[tg[0]], tg[1], tg[2]), 'tg': tg, 'v': _value(re_)})
                if cells:
                    ops.append({'op': 'set', 'ex': ex, 'client': 0, 'cells': cells})
            ops.append(gen_query(r.randrange(swarm['n_ex']), r.randrange(swarm['n_clients'])))
        if swarm['reuse']:
            _mark_reuse(r, ops)
    # evaluation grid: used range extended by every override in the plan, plus one margin cell
    grid = [[c + 2, rr + 2] for c, rr in dims]
    for op in ops:
        for c in op.get('cells', []):
            s, cc, rr = c['tg']
            grid[s][0] = max(grid[s][0], cc + 2)
            grid[s][1] = max(grid[s][1], rr + 2)
    plan['grid'] = grid
    return plan


def _mark_reuse(r, ops):
    """Some operations re-use a Cell object created by an earlier operation of the same client ON THE
    SAME EXECUTOR that named the same target with the same spelling (the caller keeps its objects
    around).  Objects are not shared between executors: whether an executor may keep a reference
    to a caller-owned object that the caller later mutates is Python aliasing, which C04's
    statement does not rule on."""
    pool = {}
    owned = {}          # client -> ids of the objects that client has passed to any executor so far
    nid = 0
    out = []
    for op in ops:
        items = op.get('cells') if op['op'] in ('set', 'gets') else [op] if op['op'] == 'get' else []
        used_here = set()
        for it in items:
            key = (op['client'], op.get('ex', 0), tuple(it['tg']), core.canon(it['at']))
            mine = owned.setdefault(op['client'], [])      # the client's own objects, whichever executor saw them last
            cands = [i for i in mine if i not in used_here]
            if key in pool and r.random() < 0.6 and pool[key] not in used_here:
                it['obj'] = pool[key]
            elif cands and r.random() < 0.2:
                # the caller RE-AIMS an object it used before at another coordinate (its identifiers are integers by
                # now): after a call has returned the object is the caller's again, what it does with it must not matter
                it['obj'] = r.choice(cands)
                it['reaim'] = True
            else:
                it['obj'] = nid
                pool[key] = nid
                nid += 1
            if it['obj'] not in mine:
                mine.append(it['obj'])
            used_here.add(it['obj'])
        if op['op'] == 'gets' and op.get('cells') and r.random() < 0.15:
            # the very same object listed twice in one get_cells call
            op['cells'].append(dict(op['cells'][-1]))
        out.append(op)
        if op['op'] == 'set' and op.get('cells') and r.random() < 0.25:
            # ... or changes the value of an object it passed, without sending it again
            c0 = r.choice(op['cells'])
            out.append({'op': 'mutate', 'ex': op['ex'], 'client': op['client'], 'obj': c0['obj'], 'v': _value(r)})
    ops[:] = out


# ----------------------------------------------------------------------------------------------
# execution (inside the forked child of a lane)

def _translate(spec):
    from excel2pycl import Parser
    simfs.DISK.put(WB_PATH, wbgen.build_bytes(spec))
    src = Parser().disable_safety_check().set_excel_file_path(WB_PATH).get_translation()
    ns = {}
    exec(compile(src, '<generated>', 'exec'), ns)
    return src, ns['ExcelInPython']


def _cell_outcome(fn):
    try:
        c = fn()
        return outcome_of_value(c.value)
    except Exception as e:
        return outcome_of_exc(e)


def _mk_cell(Cell, at, value=None):
    return Cell(at[0], at[1], at[2], value)


def run(req, ctx):
    import simclock
    plan = req.get('plan') or gen_plan(req['seed'], req.get('cfg', {}))
    simclock.set_tz('UTC0')
    simclock.set_step_ns(0)
    simclock.set_ns(FROZEN_NS)
    env_fired = core.apply_env(plan.get('env'))      # process-global stdlib settings of an embedding application (the reference gets the same)
    res = execute(plan, ctx)
    for k_, v_ in env_fired.items():
        res.setdefault('probes', {})[k_] = v_
    if req.get('want_plan') or res['mismatches']:
        res['plan'] = plan
    if not req.get('want_log'):
        res.pop('log', None)
    return res


def execute(plan, ctx):
    import simclock
    from excel2pycl import Executor, Cell
    mode = plan['mode']
    simfs.reset()
    spec = plan['spec']
    probes = {}

    def probe(name, n=1):
        probes[name] = probes.get(name, 0) + n

    try:
        src, K = _translate(spec)
    except Exception as e:
        return {'digest': core.digest(['translate-failed', type(e).__name__]), 'mismatches': [], 'probes': {'translate_failed': 1},
                'nontrivial': False, 'sig': 'translate-failed', 'steps': 0, 'trivial_reason': 'translation raised %s' % type(e).__name__,
                'log': []}
    n_ex = plan['swarm']['n_ex']
    exs = [Executor().set_executed_class(class_object=K) for _ in range(n_ex)]
    sizes0 = [[dict(d) for d in ex.get_executed_class().get_sheets_size()] for ex in exs]
    objs = {}
    aimed_at = {}       # object id -> coordinate the CALLER last pointed it at
    log = []
    clock_ns = FROZEN_NS
    dims = spec_dims(spec)

    def cell_for(it, value=None, setting=False):
        k = it.get('obj')
        if k is not None and k in objs:
            c = objs[k]
            probe('cell_object_reused')
            if aimed_at.get(k) != tuple(it['tg']):
                # the caller points its object at another coordinate (whether the plan says so or minimisation dropped the
                # operation that did); an object that already denotes the target is passed again untouched
                c.title, c.column, c.row = it['tg'][0], it['tg'][1], it['tg'][2]
                aimed_at[k] = tuple(it['tg'])
                probe('cell_object_reaimed_by_caller')
            if setting:
                c.value = value
            return c
        c = _mk_cell(Cell, it['at'], value)
        if k is not None:
            objs[k] = c
            aimed_at[k] = tuple(it['tg'])
        return c

    # ---- run the history, recording outcomes.  On some runs every logical client is a real thread and the operations
    # are handed from thread to thread in plan order - strictly one at a time, nothing runs concurrently: which
    # thread asks must not matter to the answer
    pending = list(enumerate(plan['ops']))
    if plan['swarm'].get('threads'):
        import threading
        n_cl = max(1, plan['swarm'].get('n_clients', 1))
        turn = threading.Condition()
        state = {'next': 0, 'err': None}

        def worker(cid):
            while True:
                with turn:
                    while state['err'] is None and state['next'] < len(pending) and (pending[state['next']][1].get('client', 0) % n_cl) != cid:
                        turn.wait()
                    if state['err'] is not None or state['next'] >= len(pending):
                        turn.notify_all()
                        return
                    i_, op_ = pending[state['next']]
                try:
                    step(i_, op_)
                except BaseException as e:      # harness failure inside a worker
                    import traceback
                    with turn:
                        state['err'] = traceback.format_exc()
                        turn.notify_all()
                    return
                with turn:
                    state['next'] += 1
                    turn.notify_all()

        def run_threads():
            ths = [threading.Thread(target=worker, args=(c_,), name='client-%d' % c_, daemon=True) for c_ in range(n_cl)]
            for t_ in ths:
                t_.start()
            for t_ in ths:
                t_.join()
            if state['err'] is not None:
                raise core.HarnessError('client thread failed: ' + state['err'][-600:])
            probe('operations_handed_between_threads', len(pending))
    else:
        run_threads = None

    def step(i, op):
        nonlocal clock_ns
        kind = op['op']
        if kind == 'clock':
            clock_ns += op['add_s'] * 10**9
            simclock.set_ns(clock_ns)
            log.append({'i': i, 'op': 'clock', 'ns': clock_ns})
            probe('clock_step')
            return
        if kind == 'mutate':
            if op.get('obj') in objs:
                objs[op['obj']].value = dec_value(op['v'])
                probe('caller_changed_a_passed_cell_object_afterwards')
            log.append({'i': i, 'op': 'mutate'})
            return
        ex = exs[op['ex'] % n_ex]
        if kind == 'set':
            cells = [cell_for(c, dec_value(c['v']), setting=True) for c in op['cells']]
            try:
                ex.set_cells(cells)
                out = ['ok']
            except Exception as e:
                out = outcome_of_exc(e)
            log.append({'i': i, 'op': 'set', 'out': out})
        elif kind == 'get':
            r0 = simclock.reads()
            c = cell_for(op)
            out = _cell_outcome(lambda: ex.get_cell(c))
            log.append({'i': i, 'op': 'get', 'out': out, 'clock_reads': simclock.reads() - r0, 'ns': clock_ns})
        elif kind == 'gets':
            cells = [cell_for(c) for c in op['cells']]
            try:
                got = ex.get_cells(cells)
                out = ['list', [outcome_of_value(c.value) for c in got]]
                if len(got) != len(cells):
                    out = ['badlen', len(got)]
            except Exception as e:
                out = outcome_of_exc(e)
            log.append({'i': i, 'op': 'gets', 'out': out, 'ns': clock_ns})
        elif kind == 'sheet':
            try:
                g = ex.get_sheet(op['sheet'])
                out = ['grid', len(g), [len(row) for row in g], [[outcome_of_value(c.value) for c in row] for row in g]]
            except Exception as e:
                out = outcome_of_exc(e)
            log.append({'i': i, 'op': 'sheet', 'out': out, 'ns': clock_ns})
    if run_threads is not None:
        run_threads()
    else:
        for i_, op_ in pending:
            step(i_, op_)
    # ---- final observations (C08 iii)
    final = {'sizes': [[dict(d) for d in ex.get_executed_class().get_sheets_size()] for ex in exs]}
    result = {'log': log, 'probes': probes, 'steps': len(plan['ops'])}
    if mode == 'c04':
        mism, nontrivial, sig = _check_c04(plan, log, ctx, probe, dims)
    else:
        mism, nontrivial, sig = _check_c08(plan, log, ctx, probe, dims, src, final, sizes0, exs)
    result['mismatches'] = mism
    result['nontrivial'] = nontrivial
    result['sig'] = sig
    result['digest'] = core.digest([log, final])
    return result


# ----------------------------------------------------------------------------------------------
# C04 oracle: refinement against "fresh translation of the edited workbook"

def _okey(tg):
    return '%d:%d:%d' % tuple(tg)


def _ref_c04(ctx, plan, omap):
    """omap: {okey: value}.  Returns the reference response for W[O]."""
    overrides = sorted([[int(x) for x in k.split(':')] + [v] for k, v in omap.items()], key=lambda o: o[:3])
    return ctx['ref']({'kind': 'c04', 'spec': plan['spec'], 'overrides': overrides, 'grid': plan['grid'], 'ns': FROZEN_NS,
                       'env': plan.get('env') or {}})


def _expect_cell(ref, tg):
    return ref['cells'].get(_okey(tg))


def _check_c04(plan, log, ctx, probe, dims):
    n_ex = plan['swarm']['n_ex']
    O = [dict() for _ in range(n_ex)]          # per executor: okey -> primary value (last named)
    ALT = [dict() for _ in range(n_ex)]        # okey -> other values admissible (same batch duplicates)
    HIST = [dict() for _ in range(n_ex)]       # okey -> list of all values ever written (for classification)
    formulas = set(_okey(t) for t in plan['meta']['formulas'])
    poisoned = set(_okey(t) for t in plan['meta']['poisoned'])
    mism = []
    feats = set()
    queried_after_write = False
    for op, ent in zip(plan['ops'], log):
        e = op['ex'] % n_ex if 'ex' in op else 0
        if op['op'] == 'set':
            if ent['out'] != ['ok']:
                mism.append({'key': 'set-raised', 'op': ent['i'], 'observed': ent['out'], 'expected': ['ok']})
                continue
            if op.get('resend'):
                probe('batch_sent_again' if op['cells'] else 'empty_batch')
            batch = {}
            for c in op['cells']:
                batch.setdefault(_okey(c['tg']), []).append(c['v'])
            for k, vals in batch.items():
                if k in O[e] and core.canon(O[e][k]) != core.canon(vals[-1]):
                    probe('conflicting_write')
                    feats.add('conflict')
                    if _eqhash(O[e][k], vals[-1]):
                        probe('equal_hash_other_type_write')
                        feats.add('eqhash')
                if k in O[e] and len(HIST[e][k]) >= 2 and core.canon(vals[-1]) in [core.canon(x) for x in HIST[e][k][:-1]]:
                    probe('aba_write')
                O[e][k] = vals[-1]
                alts = [v for v in vals[:-1] if core.canon(v) != core.canon(vals[-1])]
                if alts:
                    ALT[e][k] = alts
                    probe('duplicate_in_batch')
                else:
                    ALT[e].pop(k, None)
                HIST[e].setdefault(k, []).extend(vals)
                if k in formulas:
                    probe('override_on_formula')
                    feats.add('formula')
                if k in poisoned:
                    probe('override_on_raising_formula')
                    feats.add('poisoned')
                s, cc, rr = [int(x) for x in k.split(':')]
                if rr >= dims[s][1] or cc >= dims[s][0]:
                    probe('override_beyond_used_range')
                    feats.add('beyond')
            if len(O[e]) > 8:
                probe('override_set_gt8')
                feats.add('gt8')
            queried_after_write = False
            continue
        if op['op'] in ('clock', 'mutate'):
            continue
        if O[e] and not queried_after_write:
            probe('query_after_write')
            queried_after_write = True
        ref = _ref_c04(ctx, plan, O[e])
        if ref.get('unstable'):
            return [], False, 'unstable-roundtrip'
        shp = _shape(dims, O[e], op['s']) if op['op'] == 'sheet' else None
        obs_exp = _observed_expected(op, ent, ref, shp)
        bad = [(what, o, x, ok) for what, o, x, ok in obs_exp if o != x]
        if bad and ALT[e]:
            # a batch that named one cell twice: any of its values is admissible (DESIGN 4.1)
            for k, alts in ALT[e].items():
                for v in alts:
                    o2 = dict(O[e])
                    o2[k] = v
                    r2 = _ref_c04(ctx, plan, o2)
                    if all(o == x for _, o, x, _k in _observed_expected(op, ent, r2, shp)):
                        bad = []
                        break
                if not bad:
                    break
        for what, o, x, ok in bad[:3]:
            key = _classify_c04(plan, ctx, op, ent, e, O, HIST, dims, what, o, x, ok)
            mism.append({'key': key, 'op': ent['i'], 'what': what, 'observed': o, 'expected': x,
                         'overrides': dict(O[e])})
        if any(x is not None and x[0] == 'exc' for _, o, x, _k in obs_exp):
            probe('reference_raises_too')
        if any(o is not None and o[0] == 'exc' for _, o, x, _k in obs_exp):
            probe('evaluation_failed_mid_history')
    sig = core.digest([plan['spec'], plan['ops']])
    return mism, bool(feats), sig


def _shape(dims, omap, s):
    """(rows, cols) of sheet s: used range of the spec extended by the overrides in omap."""
    cols, rows = dims[s]
    for k in omap:
        ks, cc, rr = [int(x) for x in k.split(':')]
        if ks == s:
            cols, rows = max(cols, cc + 1), max(rows, rr + 1)
    return rows, cols


def _sheet_from_cells(ref, s, rows, cols):
    grid = []
    for rr in range(rows):
        row = []
        for cc in range(cols):
            x = ref['cells'].get('%d:%d:%d' % (s, cc, rr))
            if x is None:
                return ['unknown']
            if x[0] == 'exc':
                return x
            row.append(x)
        grid.append(row)
    return ['grid', rows, [cols] * rows, grid]


def _eqhash(a, b):
    try:
        return (not isinstance(a, dict)) and (not isinstance(b, dict)) and a == b and type(a) is not type(b)
    except Exception:
        return False


def _observed_expected(op, ent, ref, shape=None):
    """[(what, observed, expected)] for one query against one reference response."""
    out = ent['out']
    if op['op'] == 'get':
        return [('cell %s' % _okey(op['tg']), out, _expect_cell(ref, op['tg']), _okey(op['tg']))]
    if op['op'] == 'gets':
        exp = [_expect_cell(ref, c['tg']) for c in op['cells']]
        first_exc = next((x for x in exp if x[0] == 'exc'), None)
        if first_exc is not None:
            return [('cells', out, first_exc, None)]
        if out[0] != 'list':
            return [('cells', out, ['list', exp], None)]
        return [('cells[%d] %s' % (j, _okey(c['tg'])), o, x, _okey(c['tg'])) for j, (c, o, x) in enumerate(zip(op['cells'], out[1], exp))]
    if op['op'] == 'sheet':
        s = op['s']
        real = ref['sheets'][s]
        # shape: what the reference's own get_sheet reports; when that raised, the model shape
        rows, cols = (real[1], real[2][0] if real[2] else 0) if real[0] == 'grid' else shape
        syn = _sheet_from_cells(ref, s, rows, cols)
        if out[0] == 'exc':
            return [('sheet %d' % s, out[:2], syn[:2] if syn[0] == 'exc' else ['grid', rows], None)]
        if out[1] != rows or out[2] != [cols] * rows:
            return [('sheet %d shape' % s, out[1:3], [rows, [cols] * rows], None)]
        res = []
        for rr in range(rows):
            for cc in range(cols):
                k = '%d:%d:%d' % (s, cc, rr)
                x = ref['cells'].get(k)
                res.append(('sheet %d cell %s' % (s, k), out[3][rr][cc], x, k))
                if x is not None and x[0] == 'exc':
                    return res      # get_sheet would have stopped here
        return res
    return []


def _classify_c04(plan, ctx, op, ent, e, O, HIST, dims, what, o, x, okey=None):
    """Which narrower story explains the observation?  Used to keep the violation class stable
    during minimisation and to match known findings (after minimisation only)."""
    cur = O[e]

    def explains(omap):
        try:
            r2 = _ref_c04(ctx, plan, omap)
        except Exception:
            return False
        if op['op'] == 'sheet' and okey is None:
            # what get_sheet would answer if cell VALUES were those of W[omap] while the grid keeps
            # the shape of the overrides actually applied
            rows, cols = _shape(dims, cur, op['s'])
            syn = _sheet_from_cells(r2, op['s'], rows, cols)
            if ent['out'][0] == 'exc' or syn[0] == 'exc':
                return syn[:2] == ent['out'][:2]
            return syn == ent['out']
        if okey is not None:
            # the story has to explain THIS cell
            return r2['cells'].get(okey) == o
        return all(a == b for _, a, b, _k in _observed_expected(op, ent, r2))

    beyond = [k for k in cur if int(k.split(':')[2]) >= dims[int(k.split(':')[0])][1] or int(k.split(':')[1]) >= dims[int(k.split(':')[0])][0]]
    if beyond:
        o2 = {k: v for k, v in cur.items() if k not in beyond}
        if explains(o2):
            return 'beyond-range-override-invisible'
        for k in beyond:
            o2 = {kk: v for kk, v in cur.items() if kk != k}
            if explains(o2):
                return 'beyond-range-override-invisible'
    # an earlier write to a multiply-written cell survived (or a later one was lost)
    for k, hist in HIST[e].items():
        seen = []
        for v in hist[:-1]:
            cv = core.canon(v)
            if cv in seen or cv == core.canon(cur[k]):
                continue
            seen.append(cv)
            o2 = dict(cur)
            o2[k] = v
            if explains(o2):
                return 'earlier-write-survives'
    formulas = set(_okey(t) for t in plan['meta']['formulas'])
    for k in cur:
        o2 = {kk: v for kk, v in cur.items() if kk != k}
        if explains(o2):
            if k in formulas and o and o[0] == 'exc':
                return 'overridden-formula-still-evaluated'
            return 'override-dropped'
    if o and o[0] == 'exc' and x and x[0] != 'exc' and any(k in formulas for k in cur):
        return 'overridden-formula-still-evaluated'
    # leak between executors: the other executor's map explains it
    for e2 in range(len(O)):
        if e2 != e and explains(O[e2]):
            return 'other-executor-overrides-visible'
    return 'other'


# ----------------------------------------------------------------------------------------------
# C08 oracle: every response = isolated single query on a pristine executor

def _check_c08(plan, log, ctx, probe, dims, src, final, sizes0, exs):
    n_ex = plan['swarm']['n_ex']
    n_setup = plan.get('n_setup', 0)
    O = [dict() for _ in range(n_ex)]          # overrides in force, built up as the history proceeds (epochs)
    mism = []
    feats = set()
    seen_cells = {}
    queried = [False] * n_ex

    def iso(e, ns):
        overrides = sorted([[int(x) for x in k.split(':')] + [v] for k, v in O[e].items()], key=lambda o: o[:3])
        return ctx['ref']({'kind': 'iso', 'src': src, 'overrides': overrides, 'grid': plan['grid'], 'ns': ns, 'env': plan.get('env') or {}})

    # expected grid shape: used range of the SPEC extended by the overrides
    def shape(e, s):
        cols, rows = dims[s]
        for k in O[e]:
            ks, cc, rr = [int(x) for x in k.split(':')]
            if ks == s:
                cols, rows = max(cols, cc + 1), max(rows, rr + 1)
        return rows, cols

    had_exc = False
    for op, ent in zip(plan['ops'], log):
        if op['op'] in ('set', 'clock', 'mutate'):
            if op['op'] == 'set' and ent['out'] != ['ok']:
                mism.append({'key': 'set-raised', 'op': ent['i'], 'observed': ent['out'], 'expected': ['ok']})
            if op['op'] == 'set':
                e = op['ex'] % n_ex
                for c in op['cells']:
                    O[e][_okey(c['tg'])] = c['v']
                if queried[e]:
                    probe('new_override_epoch_after_queries')
                    feats.add('epoch')
            continue
        e = op['ex'] % n_ex
        queried[e] = True
        ref = iso(e, ent['ns'])
        pairs = []
        out = ent['out']
        if op['op'] == 'get':
            pairs = [('cell %s' % _okey(op['tg']), out, ref['cells'].get(_okey(op['tg'])))]
            k = (e, _okey(op['tg']))
            seen_cells[k] = seen_cells.get(k, 0) + 1
            if seen_cells[k] == 2:
                probe('repeated_query')
                feats.add('repeat')
            if ent.get('clock_reads'):
                probe('query_read_the_clock')
        elif op['op'] == 'gets':
            exp = [ref['cells'].get(_okey(c['tg'])) for c in op['cells']]
            first_exc = next((x for x in exp if x[0] == 'exc'), None)
            if first_exc is not None:
                pairs = [('cells', out, first_exc)]
            elif out[0] != 'list':
                pairs = [('cells', out, ['list', exp])]
            else:
                pairs = [('cells[%d] %s' % (j, _okey(c['tg'])), o, x) for j, (c, o, x) in enumerate(zip(op['cells'], out[1], exp))]
            feats.add('gets')
        elif op['op'] == 'sheet':
            rows, cols = shape(e, op['s'])
            exp_rows = [[ref['cells'].get('%d:%d:%d' % (op['s'], cc, rr)) for cc in range(cols)] for rr in range(rows)]
            first_exc = next((x for row in exp_rows for x in row if x[0] == 'exc'), None)
            if first_exc is not None:
                pairs = [('sheet %d' % op['s'], out[:2], first_exc[:2])]
                probe('get_sheet_aborted_by_failing_cell')
            elif out[0] != 'grid':
                pairs = [('sheet %d' % op['s'], out[:2], ['grid', rows])]
            elif out[1] != rows or out[2] != [cols] * rows:
                pairs = [('sheet %d shape' % op['s'], out[1:3], [rows, [cols] * rows])]
            else:
                pairs = [('sheet %d cell %d:%d:%d' % (op['s'], op['s'], cc, rr), out[3][rr][cc], exp_rows[rr][cc])
                         for rr in range(rows) for cc in range(cols)]
            feats.add('sheet')
        if had_exc:
            probe('query_after_failed_evaluation')
        if any(o is not None and o[0] == 'exc' for _, o, x in pairs):
            had_exc = True
            probe('evaluation_failed_mid_history')
            feats.add('exc')
        for what, o, x in [p for p in pairs if p[1] != p[2]][:3]:
            mism.append({'key': _classify_c08(what, o, x), 'op': ent['i'], 'what': what, 'observed': o, 'expected': x})
    # (iii) querying never changes the overrides or the reported sizes
    for e in range(n_ex):
        exp_sizes = [{'last_column': shape(e, s)[1], 'last_row': shape(e, s)[0]} for s in range(len(dims))]
        if final['sizes'][e] != exp_sizes:
            mism.append({'key': 'sizes-changed', 'op': 'final', 'what': 'get_sheets_size ex%d' % e,
                         'observed': final['sizes'][e], 'expected': exp_sizes})
    if n_ex > 1:
        feats.add('two-executors')
        probe('second_executor')
    if O[0]:
        feats.add('overrides')
    sig = core.digest([plan['spec'], plan['ops']])
    return mism, len(feats) >= 1, sig


def _classify_c08(what, o, x):
    if 'shape' in what:
        return 'grid-shape'
    if o and x and o[0] == 'exc' and x[0] != 'exc':
        return 'raises-after-history'
    if o and x and o[0] != 'exc' and x[0] == 'exc':
        return 'value-instead-of-exception'
    return 'value-differs-from-isolated-query'


# ----------------------------------------------------------------------------------------------
# reference server side (pristine process, other hash seed)

def ref_handle(req):
    import simclock
    from excel2pycl import Executor, Cell
    simclock.set_tz('UTC0')
    simclock.set_step_ns(0)
    simclock.set_ns(req.get('ns', FROZEN_NS))
    simfs.reset()
    # C04 / C08 compare the library with itself: "a fresh translation" and "a pristine executor" live in the same
    # application, so they see the same interpreter-wide settings as the history under test
    core.apply_env(req.get('env'))
    if req['kind'] == 'c04':
        spec2 = wbgen.apply_overrides(req['spec'], req['overrides'])
        data = wbgen.build_bytes(spec2)
        # generator self-check: every planted constant must survive the xlsx round trip unchanged
        back = wbgen.readback(data)
        for s, c, rr, v in req['overrides']:
            got = back.get((s, c, rr))
            want = dec_value(v)
            if type(got) is not type(want) or got != want:
                return {'unstable': True, 'why': [s, c, rr, repr(want), repr(got)]}
        from excel2pycl import Parser
        simfs.DISK.put(WB_PATH, data)
        src = Parser().disable_safety_check().set_excel_file_path(WB_PATH).get_translation()
        ns = {}
        exec(compile(src, '<reference>', 'exec'), ns)
        K = ns['ExcelInPython']
        cells = {}
        for s, (cols, rows) in enumerate(req['grid']):
            for rr in range(rows):
                for cc in range(cols):
                    # "queried once": a new executor per coordinate, so the reference itself has no query history
                    ex = Executor().set_executed_class(class_object=K)
                    cells['%d:%d:%d' % (s, cc, rr)] = _cell_outcome(lambda: ex.get_cell(Cell(s, cc, rr)))
        sheets = []
        for s in range(len(req['grid'])):
            try:
                g = Executor().set_executed_class(class_object=K).get_sheet(s)
                sheets.append(['grid', len(g), [len(row) for row in g], [[outcome_of_value(c.value) for c in row] for row in g]])
            except Exception as e:
                sheets.append(outcome_of_exc(e))
        return {'cells': cells, 'sheets': sheets}
    if req['kind'] == 'iso':
        code = compile(req['src'], '<reference>', 'exec')
        cells = {}
        for s, (cols, rows) in enumerate(req['grid']):
            for rr in range(rows):
                for cc in range(cols):
                    # a pristine executor over a pristine CLASS per coordinate: no query history at all, not even in
                    # class-level or module-level state of the generated code
                    core.reset_interpreter_state(req.get('env'))       # ... nor in interpreter-wide settings (decimal context, ...)
                    ns = {}
                    exec(code, ns)
                    K = ns['ExcelInPython']
                    ex = Executor().set_executed_class(class_object=K)
                    if req['overrides']:
                        ex.set_cells([Cell(o[0], o[1], o[2], dec_value(o[3])) for o in req['overrides']])
                    cells['%d:%d:%d' % (s, cc, rr)] = _cell_outcome(lambda: ex.get_cell(Cell(s, cc, rr)))
        return {'cells': cells}
    raise ValueError(req['kind'])


# ----------------------------------------------------------------------------------------------
# minimisation candidates

def shrink(plan):
    """Yield smaller plans, most aggressive first (delta debugging over operations, then cells of
    batches, then workbook cells)."""
    import copy
    ops = plan['ops']
    n_setup = plan.get('n_setup')

    def with_ops(new_ops, new_setup=None):
        p = copy.deepcopy(plan)
        p['ops'] = copy.deepcopy(new_ops)
        if n_setup is not None:
            p['n_setup'] = new_setup if new_setup is not None else sum(1 for o in new_ops if o['op'] == 'set')
        return p

    # drop chunks of operations
    n = len(ops)
    chunk = max(1, n // 2)
    while chunk >= 1:
        i = 0
        while i < n:
            keep = ops[:i] + ops[i + chunk:]
            if keep and any(o['op'] in ('get', 'gets', 'sheet') for o in keep):
                yield with_ops(keep)
            i += chunk
        chunk //= 2
    # drop single cells from batches / lists
    for i, op in enumerate(ops):
        if op['op'] in ('set', 'gets') and len(op['cells']) > 1:
            for j in range(len(op['cells'])):
                new = copy.deepcopy(ops)
                del new[i]['cells'][j]
                yield with_ops(new)
    # gets -> get, sheet stays
    for i, op in enumerate(ops):
        if op['op'] == 'gets':
            for c in op['cells']:
                new = copy.deepcopy(ops)
                new[i] = {'op': 'get', 'ex': op['ex'], 'client': op['client'], 'at': c['at'], 'tg': c['tg']}
                yield with_ops(new)
    if plan.get('env'):
        p = copy.deepcopy(plan)
        p['env'] = {}
        yield p
    if plan['swarm'].get('threads'):
        p = copy.deepcopy(plan)
        p['swarm']['threads'] = False
        yield p
    # one executor
    if plan['swarm']['n_ex'] > 1:
        p = copy.deepcopy(plan)
        p['swarm']['n_ex'] = 1
        yield p
    # forget object re-use
    if any('obj' in it for op in ops for it in (op.get('cells') or [op])):
        p = copy.deepcopy(plan)
        for op in p['ops']:
            for it in (op.get('cells') or [op]):
                it.pop('obj', None)
                it.pop('reaim', None)
        p['ops'] = [op for op in p['ops'] if op['op'] != 'mutate']
        yield p
    # numeric addressing
    for i, op in enumerate(ops):
        for j, it in enumerate(op.get('cells') or ([op] if op['op'] == 'get' else [])):
            if it['at'] != it['tg']:
                p = copy.deepcopy(plan)
                tgt = p['ops'][i]['cells'][j] if 'cells' in op else p['ops'][i]
                tgt['at'] = list(tgt['tg'])
                yield p
    # drop workbook cells (never a cell that is a target of an op; formulas referencing a dropped
    # cell simply see a blank)
    for s, sh in enumerate(plan['spec']['sheets']):
        keys = list(sh['cells'])
        for k in keys:
            if len(keys) <= 1:
                break
            p = copy.deepcopy(plan)
            del p['spec']['sheets'][s]['cells'][k]
            c, rr = wbgen.parse_a1(k)
            p['meta']['formulas'] = [f for f in p['meta']['formulas'] if f != [s, c, rr]]
            p['meta']['poisoned'] = [f for f in p['meta']['poisoned'] if f != [s, c, rr]]
            yield p
    # simplify override values
    for i, op in enumerate(ops):
        if op['op'] == 'set':
            for j, c in enumerate(op['cells']):
                for v in (1, 2):
                    if c['v'] != v:
                        p = copy.deepcopy(plan)
                        p['ops'][i]['cells'][j]['v'] = v
                        yield p


def describe(plan, m):
    return '%s at op %s (%s): observed %s, expected %s' % (m.get('key'), m.get('op'), m.get('what', ''), m.get('observed'), m.get('expected'))


# ----------------------------------------------------------------------------------------------
# known-finding signatures (applied to MINIMISED plans only)

def bound_wholecols(plan):
    """Counterfactual plan: every whole-column reference X:Y replaced by the bounded area it denoted at
    translation time (rows 1..used rows of its sheet).  If a violation survives this, whole-column
    enumeration is not what causes it."""
    import copy
    p = copy.deepcopy(plan)
    dims = spec_dims(plan['spec'])
    titles = [sh['title'] for sh in plan['spec']['sheets']]
    for si, sh in enumerate(p['spec']['sheets']):
        for k, v in list(sh['cells'].items()):
            if isinstance(v, str) and v.startswith('='):
                def rep(m, si=si):
                    t = m.group('q') or m.group('u')
                    ts = titles.index(t) if t in titles else si
                    rows = max(dims[ts][1], 1)
                    return '%s%s1:%s%d' % (m.group(1) or '', m.group('c1'), m.group('c2'), rows)
                sh['cells'][k] = WHOLECOL_RE.sub(rep, v)
    return p


def matches_finding(plan, mismatch, finding, rerun=None):
    sigkind = finding.get('signature', {}).get('kind')
    if sigkind == 'c04-wholecol-beyond-range':
        # an override at a row past the used range is invisible to whole-column references of that
        # sheet (their extent is enumerated at translation time)
        if mismatch.get('key') != 'beyond-range-override-invisible':
            return False
        dims = spec_dims(plan['spec'])
        refs = wholecol_refs(plan['spec'])
        structural = False
        for op in plan['ops']:
            if op['op'] != 'set':
                continue
            for c in op['cells']:
                s, cc, rr = c['tg']
                if rr >= dims[s][1] and any(ts == s for _, ts, lo, hi in refs):
                    structural = True
        if not structural:
            return False
        if rerun is None:
            return True
        # counterfactual: with the whole-column references bounded, the violation must be gone
        res = rerun(bound_wholecols(plan))
        if not isinstance(res, dict) or 'harness_error' in res:
            return False
        return not [m for m in res.get('mismatches', []) if m.get('key') == mismatch.get('key')]
    return False
