"""clocksim — the wall clock and the time zone are the simulated dimension.

mode 'invariance' (C12): a criteria-matrix workbook of SUMIF/SUMIFS/COUNTIFS/AVERAGEIFS cells is
    evaluated at 6..20 simulated instants (every month-length class, both sides of month/year ends,
    zone changes, auto-advancing clock); every cell that does not contain TODAY() must give the
    identical outcome at all of them.
mode 'calendar' (C15): a dashboard of the idioms workbooks build on TODAY() is translated at one
    simulated instant, instantiated at another and queried while the clock jumps forward and
    backward and the zone changes; each response is checked against independent calendar
    arithmetic on the simulated instant."""
import calendar
import copy
import datetime
import re

import core
import simfs
import wbgen
from core import enc_value, dec_value, outcome_of_value, outcome_of_exc
from wbgen import a1

NAME = 'clocksim'
# probes that count as injected disturbances (reported under faults_fired in the evidence)
FAULT_PROBES = ('env_calendar_firstweekday_changed', 'env_decimal_context_changed', 'env_warnings_filter_changed', 'env_root_logger_level_changed',
                'switched_between_fixed_offset_and_dst_rule_zone',
                'override_between_two_instants', 'caller_changed_passed_cell_objects_afterwards')
# (jumps forward and backward, zone changes, DST transitions, month ends and midnights - between two queries or inside one evaluation -
# are the ordinary workload of a timeline, not disturbances: they are reported as probes only)
NEEDS_REF = True       # invariance mode asks a foreign process (other hash seed) for the same cells once per run
WB_PATH = '/simfs/clock.xlsx'
EPOCH = datetime.datetime(1970, 1, 1)
DAY = 86400
BUILD_NS = 1_718_000_000 * 10**9

RULE = {
    'invariance': 'one run = one generated criteria-matrix workbook (<=28 conditional-aggregate cells over mixed ranges; on a third of '
                  'the runs with date-times inside a DST gap/overlap) x a seeded timeline of 6-20 simulated instants in fixed-offset and '
                  'DST-rule zones, on half of the runs interleaved with set_cells edits of criterion/range cells, permuted and repeated '
                  'queries; non-trivial = the timeline changes the month-length class or crosses a month/year end or makes local date '
                  '!= UTC date or contains an override; distinct = distinct (workbook, timeline) digests among those',
    'calendar': 'one run = the TODAY() dashboard with per-run start/deadline/holidays x a seeded timeline of 20-120 clock jumps '
                '(forward and backward), zone changes and queries; non-trivial = the timeline crosses a local midnight between two '
                'queries, or a month end / 29 Feb / year end / DST transition, or local date != UTC date; distinct = distinct plan digests among those',
}
ASSUMPTIONS = {
    'invariance': ['the LD_PRELOAD shim intercepts every wall-clock read of the process (pre-flight checked)',
                   'decides only the necessary conditions "result does not depend on the evaluation date / zone" and "a used executor '
                   'answers like a pristine one with the same overrides"; whether the selected positions are the right ones is a '
                   'pure-input question and is not claimed'],
    'calendar': ['the LD_PRELOAD shim intercepts every wall-clock read of the process (pre-flight checked)',
                 'local time = POSIX TZ rules as evaluated by an independent 40-line evaluator, cross-checked against libc localtime() '
                 'for the same explicit instant (a disagreement skips the instant, it is never a violation)',
                 'only dates reachable from the simulated clock (1971-2099) are exercised; the full input box of C15 is not claimed'],
}

# ----------------------------------------------------------------------------------------------
# time zones: self-contained POSIX TZ strings

FIXED_TZ = ['UTC0', 'XYZ-14', 'ABC+12', 'ABC+11', 'XYZ-5:30', 'XYZ-5:45', 'ABC+3:30', 'XYZ-1', 'ABC+1', 'XYZ-9', 'ABC+8', 'XYZ-13']
RULE_TZ = ['EST5EDT,M3.2.0/2,M11.1.0/2',            # northern
           'AEST-10AEDT,M10.1.0/2,M4.1.0/3',        # southern
           'XST-2XDT,M3.5.5/0,M10.5.5/0',           # switches at local midnight
           'NPT-5:45NPD,M4.1.0/1,M9.5.0/1']         # 45-minute offset with a rule

_TZ_RE = re.compile(r'^([A-Za-z]{3,})([+-]?\d+(?::\d+)?)(?:([A-Za-z]{3,})([+-]?\d+(?::\d+)?)?,(M\d+\.\d\.\d)(?:/(\d+))?,(M\d+\.\d\.\d)(?:/(\d+))?)?$')



_MLEN = (31, 28, 31, 30, 31, 30, 31, 31, 30, 31, 30, 31)


def _mlen(y, m):
    """Days in month m of year y - own arithmetic, NOT calendar.monthrange: the oracle must not share mutable
    standard-library state (calendar.mdays is a plain list) with the code under test (seeded change c15p)."""
    return 29 if m == 2 and y % 4 == 0 and (y % 100 != 0 or y % 400 == 0) else _MLEN[m - 1]


def _off_s(txt):
    sign = -1 if txt.startswith('-') else 1
    txt = txt.lstrip('+-')
    h, _, m = txt.partition(':')
    return sign * (int(h) * 3600 + int(m or 0) * 60)


def _mwd(year, spec):
    """date of Mm.w.d in year (d: 0=Sunday)."""
    m, w, d = [int(x) for x in spec[1:].split('.')]
    first = datetime.date(year, m, 1)
    first_dow = (first.weekday() + 1) % 7          # Sunday = 0
    day = 1 + (d - first_dow) % 7 + (w - 1) * 7
    last = _mlen(year, m)
    while day > last:
        day -= 7
    return datetime.date(year, m, day)


def utc_offset(tz, utc_s):
    """Seconds EAST of UTC in zone tz at the UTC instant utc_s — independent of libc."""
    m = _TZ_RE.match(tz)
    if not m:
        raise ValueError(tz)
    std = -_off_s(m.group(2))                      # POSIX offsets are west-positive
    if not m.group(3):
        return std
    dst = -_off_s(m.group(4)) if m.group(4) else std + 3600
    s_rule, s_h, e_rule, e_h = m.group(5), int(m.group(6) or 2), m.group(7), int(m.group(8) or 2)
    year = (EPOCH + datetime.timedelta(seconds=utc_s + std)).year
    trans = []
    for y in (year - 1, year, year + 1):
        sd = _mwd(y, s_rule)
        ed = _mwd(y, e_rule)
        start_utc = (sd - datetime.date(1970, 1, 1)).days * DAY + s_h * 3600 - std    # given in local standard time
        end_utc = (ed - datetime.date(1970, 1, 1)).days * DAY + e_h * 3600 - dst      # given in local daylight time
        trans.append((start_utc, True))
        trans.append((end_utc, False))
    trans.sort()
    active = False
    for t, on in trans:
        if t <= utc_s:
            active = on
    return dst if active else std


def local_date(tz, ns):
    s = ns // 10**9
    return (EPOCH + datetime.timedelta(seconds=s + utc_offset(tz, s))).date()


def libc_local_date(ns):
    import time
    t = time.localtime(ns // 10**9)
    return datetime.date(t.tm_year, t.tm_mon, t.tm_mday)


def to_ns(dt):
    d = dt - EPOCH
    return (d.days * DAY + d.seconds) * 10**9


# ----------------------------------------------------------------------------------------------
# timelines

def _anchor_instants(r, n):
    """UTC instants biased to where calendars break."""
    out = []
    for _ in range(n):
        y = r.choice([r.randint(1971, 2099), r.choice([2024, 2023, 2000, 2100 - 1, 1972, 2028, 2038])])
        k = r.random()
        if k < 0.25:      # month ends of every length class
            m = r.randint(1, 12)
            d = _mlen(y, m) - r.choice([0, 0, 1])
        elif k < 0.40:    # February
            m = 2
            d = r.choice([27, 28, _mlen(y, 2)])
        elif k < 0.50:    # year end / start
            m, d = r.choice([(12, 31), (1, 1), (12, 30)])
        elif k < 0.60:    # first days
            m, d = r.randint(1, 12), r.choice([1, 2])
        else:
            m = r.randint(1, 12)
            d = r.randint(1, _mlen(y, m))
        h = r.choice([0, 0, 23, 23, 12, r.randint(0, 23)])
        mi = r.choice([0, 59, 59, 0, r.randint(0, 59)])
        sec = r.choice([0, 58, 59, 1, r.randint(0, 59)])
        out.append(to_ns(datetime.datetime(y, m, d, h, mi, sec)))
    return out


# ----------------------------------------------------------------------------------------------
# invariance mode: the criteria matrix

SAFE_TEXT = ['x', 'ab', 'abc', 'Zed', 'k9', 'a', 'zz', 'hello', 'TRUE', 'é✓', 'Ab', 'AB', 'a.b', 'a.bc', 'k(9)', 'x+y', '[a]b', 'a|b', 'c$']
DATELIKE_TEXT = ['5', '05', '29', '30', '31', '1-2', '3/4', '10:30', 'may', 'jan 5', '2024-01-31', '12', '31.0', 'mon']


def _matrix_workbook(r, datelike, pad=0):
    rows = r.randint(4, 8)
    texts = SAFE_TEXT + (DATELIKE_TEXT * 2 if datelike else [])
    cells = {}
    for rr in range(rows):
        # B: mixed criteria range
        k = r.random()
        if k < 0.45:
            cells[a1(1, rr)] = r.choice([0, 1, 5, 29, 30, 31, -3, 2.5, r.randint(1, 31)])
        elif k < 0.8:
            cells[a1(1, rr)] = r.choice(texts)
        elif k < 0.9:
            cells[a1(1, rr)] = r.random() < 0.5
        # C: numeric target
        if r.random() < 0.9:
            cells[a1(2, rr)] = r.choice([rr + 1, r.randint(-5, 40), wbgen.stable_float(r)])
        # D: text range
        if r.random() < 0.85:
            cells[a1(3, rr)] = r.choice(texts)
        # E: dates / blanks / numbers
        k = r.random()
        if k < 0.5:
            cells[a1(4, rr)] = enc_value(wbgen.stable_datetime(r))
        elif k < 0.7:
            cells[a1(4, rr)] = r.randint(1, 31)
    last = rows + pad        # ranges may run past the used area ("A1:A1000 over a dozen rows"); rows appended later land there

    def rng_(col):
        return '%s1:%s%d' % (col, col, last)

    def present(col):
        ci = 'ABCDE'.index(col)
        vals = [cells.get(a1(ci, rr)) for rr in range(rows)]
        return [v for v in vals if v is not None and not isinstance(v, (dict, bool))]

    def crit(col):
        """A criterion for a range in column col — often one that actually occurs in that range."""
        k = r.random()
        pv = present(col)
        if pv and r.random() < 0.6:
            v = r.choice(pv)
            if isinstance(v, str):
                if k < 0.7:
                    return '"%s"' % v
            elif k < 0.35:
                return '"%s"' % v          # a number present in the range, written as text
            elif k < 0.7:
                return str(v)
        if k < 0.22:
            return '"%s"' % r.choice(texts)
        if k < 0.36:
            return str(r.choice([0, 1, 5, 29, 30, 31, 2.5]))
        if k < 0.52:
            return '"%s%s"' % (r.choice(['>', '<', '>=', '<=', '<>', '=']), r.choice(['5', '0', '30', '2.5', 'x', 'ab', '31'] if True else []))
        if k < 0.64:
            return '"%s"&%s%d' % (r.choice(['>', '<', '>=', '<=', '<>']), r.choice('BCE'), r.randint(1, last))
        if k < 0.86:
            return '%s%d' % (r.choice([col, 'B', 'D']), r.randint(1, last))
        return None  # pattern (only allowed as the sole pair)

    def pattern():
        return '"%s"' % r.choice(['a*', '?b', '*b*', 'z?', '~*', 'A*', '???', 'a.b*', 'a.?*', 'k(9)*', '*+y', '[a]*', 'a|?', '?$', '*.*'])

    formulas = []
    n = r.randint(6, 24)
    if pad:
        n = min(n, rows)     # keep the sheet's used box as tall as the table, so the padded tail of a range lies OUTSIDE it
    for i in range(n):
        fn = r.choice(['SUMIF', 'SUMIFS', 'COUNTIFS', 'COUNTIFS', 'AVERAGEIFS'])
        col = r.choice('BBDDE')
        c = crit(col)
        if fn == 'SUMIF':
            c = c or pattern()
            f = '=SUMIF(%s,%s%s)' % (rng_(col), c, r.choice([',' + rng_('C'), ',' + rng_('C'), '']))
        else:
            npairs = 1 if c is None else r.choice([1, 1, 2, 3])
            pairs = ['%s,%s' % (rng_(col), c or pattern())]
            for _ in range(npairs - 1):
                col2 = r.choice('BDE')
                c2 = crit(col2)
                while c2 is None:
                    c2 = crit(col2)
                pairs.append('%s,%s' % (rng_(col2), c2))
            if fn == 'COUNTIFS':
                f = '=COUNTIFS(%s)' % ','.join(pairs)
            else:
                f = '=%s(%s,%s)' % (fn, rng_('C'), ','.join(pairs))
        formulas.append(f)
    for i, f in enumerate(formulas):
        cells[a1(0, i)] = f
    # one TODAY()-dependent cell, exempt from the oracle (it legitimately moves)
    cells[a1(5, 0)] = '=COUNTIFS(%s,TODAY())' % rng_('E')
    return {'sheets': [{'title': 'M', 'cells': cells}]}, n


def _gen_invariance(seed, cfg):
    r = core.rng(seed, 'clocksim', 'invariance')
    swarm = {'datelike': r.random() < 0.5, 'auto_advance': r.random() < 0.3, 'tz_changes': r.random() < 0.6}
    swarm.update(cfg.get('swarm', {}))
    rp = core.rng(seed, 'clocksim', 'invariance', 'pad')
    pad = rp.choice([0, 0, 0, 1, 2, 4])
    if 'pad' in cfg.get('swarm', {}):
        pad = cfg['swarm']['pad']
    swarm['pad'] = pad
    spec, n = _matrix_workbook(r, swarm['datelike'], pad)
    k = r.randint(6, 20)
    # rule zones (own stream): on a third of the runs some instants lie in a POSIX rule zone with DST, and the date
    # column holds date-times inside that zone's spring-forward gap / fall-back overlap next to their neighbours one
    # hour later - values that a "convert to UTC first" comparison folds together or re-orders, in that zone only
    rz = core.rng(seed, 'clocksim', 'invariance', 'zones')
    rule_zone = rz.choice(RULE_TZ) if rz.random() < 0.35 else None
    if 'rule_zone' in cfg.get('swarm', {}):
        rule_zone = cfg['swarm']['rule_zone']
    swarm['rule_zone'] = rule_zone
    if rule_zone:
        m_ = _TZ_RE.match(rule_zone)
        y_ = rz.randint(1995, 2035)
        cells_ = spec['sheets'][0]['cells']
        last_ = 1 + max(wbgen.parse_a1(k_)[1] for k_ in cells_ if k_[0] in 'BCDE')
        specials = []
        for rule, hh in ((m_.group(5), int(m_.group(6) or 2)), (m_.group(7), int(m_.group(8) or 2))):
            d_ = _mwd(y_, rule)
            t0_ = datetime.datetime(d_.year, d_.month, d_.day) + datetime.timedelta(hours=hh)
            for mins in (30, 90, -30, 15, 75):
                specials.append(t0_ + datetime.timedelta(minutes=mins))
        rz.shuffle(specials)
        rows_ = list(range(last_))
        rz.shuffle(rows_)
        used_rows = []
        for rr_, v_ in zip(rows_[:max(2, last_ - 1)], specials):
            cells_[a1(4, rr_)] = enc_value(v_)
            used_rows.append(rr_)
        for j_ in range(rz.randint(2, 4)):
            rr_ = rz.choice(used_rows)
            rng_e = 'E1:E%d' % last_
            f_ = rz.choice(['=COUNTIFS(%s,E%d)' % (rng_e, rr_ + 1), '=SUMIFS(C1:C%d,%s,E%d)' % (last_, rng_e, rr_ + 1),
                            '=SUMIF(%s,E%d,C1:C%d)' % (rng_e, rr_ + 1, last_), '=AVERAGEIFS(C1:C%d,%s,E%d)' % (last_, rng_e, rr_ + 1),
                            '=COUNTIFS(%s,">"&E%d)' % (rng_e, rr_ + 1), '=COUNTIFS(%s,"<="&E%d)' % (rng_e, rr_ + 1)])
            cells_[a1(7, j_)] = f_
    # criteria built from TODAY() (own stream): they legitimately move with the date, so they are exempt from the
    # time-invariance clause - but at one frozen instant a used executor must still answer like a pristine one,
    # which is where a criterion that was bound on an earlier day shows
    rt = core.rng(seed, 'clocksim', 'invariance', 'today')
    cells_t = spec['sheets'][0]['cells']
    last_t = 1 + max(wbgen.parse_a1(k_)[1] for k_ in cells_t if k_[0] in 'BCDE')
    cells_t['G1'] = '=TODAY()'
    forms = ['=COUNTIFS(E1:E%d,"<"&TODAY())', '=SUMIFS(C1:C%d,E1:E%d,"<="&TODAY())', '=COUNTIFS(E1:E%d,">"&G1)', '=SUMIF(E1:E%d,"<"&G1,C1:C%d)',
             '=AVERAGEIFS(C1:C%d,E1:E%d,">="&TODAY())', '=COUNTIFS(E1:E%d,G1)']
    rt.shuffle(forms)
    for j_, f_ in enumerate(forms[:rt.randint(1, 3)]):
        cells_t[a1(5, 1 + j_)] = f_ % ((last_t,) * f_.count('%d'))
    # plain NUMBERS that are Excel serials of (or next to) the dates in the date column, whole and fractional (own
    # stream): whatever a date criterion does with a number, it must not depend on the zone of the process
    rsn = core.rng(seed, 'clocksim', 'invariance', 'serials')
    if rsn.random() < 0.4:
        dts = [dec_value(v_) for k_, v_ in cells_t.items() if k_[0] == 'E' and isinstance(v_, dict)]
        rows_e = [rr_ for rr_ in range(last_t) if not isinstance(cells_t.get(a1(4, rr_)), dict)]
        rsn.shuffle(rows_e)
        for rr_ in rows_e[:rsn.randint(1, 2)]:
            if dts:
                d_ = rsn.choice(dts)
                serial = (d_ - datetime.datetime(1899, 12, 30)).total_seconds() / 86400.0
                cells_t[a1(4, rr_)] = rsn.choice([int(serial), int(serial) + 1, int(serial) - 1, round(int(serial) + rsn.choice([0.25, 0.375, 0.625, 0.75]), 3)])
        if dts:
            e_rows = [wbgen.parse_a1(k_)[1] for k_, v_ in cells_t.items() if k_[0] == 'E' and isinstance(v_, dict)]
            for j_ in range(rsn.randint(1, 2)):
                rr_ = rsn.choice(e_rows)
                cells_t[a1(9, j_)] = rsn.choice(['=COUNTIFS(E1:E%d,">="&E%d)', '=COUNTIFS(E1:E%d,E%d)', '=SUMIFS(C1:C{n},E1:E%d,"<="&E%d)'.replace('{n}', str(last_t)),
                                                 '=SUMIF(E1:E%d,">"&E%d,C1:C{n})'.replace('{n}', str(last_t))]) % (last_t, rr_ + 1)
    # ranges of different sizes (own stream): "reported as an error rather than silently mis-aligned" - and reporting it
    # must leave no trace behind for the formulas evaluated afterwards
    rm_ = core.rng(seed, 'clocksim', 'invariance', 'misaligned')
    if rm_.random() < 0.5 and last_t >= 3:
        forms_m = ['=SUMIFS(C1:C%d,B1:B%d,">0")' % (last_t, last_t - 1), '=COUNTIFS(B1:B%d,">0",D1:D%d,"<>x")' % (last_t, last_t - 1),
                   '=AVERAGEIFS(C1:C%d,B1:B%d,">0")' % (last_t - 1, last_t), '=SUMIFS(C1:C%d,B1:B%d,">0",D1:D%d,"<>q")' % (last_t, last_t, last_t - 2)]
        rm_.shuffle(forms_m)
        for j_, f_ in enumerate(forms_m[:rm_.randint(1, 2)]):
            cells_t[a1(8, j_)] = f_
    timeline = []
    tz = 'UTC0'
    # the second simulated dimension: evaluation / override history.  Between two instants a client may edit
    # cells the criteria and ranges read (Executor.set_cells); the used executor must then answer like a
    # pristine one given the same overrides.  Drawn from its own stream so the timelines stay what they were.
    rh = core.rng(seed, 'clocksim', 'invariance', 'history')
    history = rh.random() < 0.5 if 'history' not in cfg.get('swarm', {}) else cfg['swarm']['history']
    swarm['history'] = history
    cells = spec['sheets'][0]['cells']
    rows = 1 + max(wbgen.parse_a1(k_)[1] for k_ in cells if not k_.startswith(('A', 'F')))
    single_refs = sorted(set(m.group(1) + m.group(2) for v in cells.values() if isinstance(v, str) and v.startswith('=')
                             for m in re.finditer(r'(?<![A-Z:$])([B-E])(\d+)(?![:\d])', re.sub(r'"[^"]*"', '""', v))))
    pool_txt = SAFE_TEXT + (DATELIKE_TEXT if swarm['datelike'] else [])
    for i, ns in enumerate(_anchor_instants(r, k)):
        if swarm['tz_changes'] and r.random() < 0.4:
            tz = r.choice(FIXED_TZ)
        step = 0
        if swarm['auto_advance'] and r.random() < 0.5:
            step = r.choice([1, 60, 3600, 6 * 3600]) * 10**9
        ent = {'ns': ns, 'tz': tz, 'step_ns': step}
        if history:
            if i and rh.random() < 0.45:
                sets = []
                for _ in range(rh.choice([1, 1, 2, 3])):
                    if single_refs and rh.random() < 0.6:
                        cc, rr = wbgen.parse_a1(rh.choice(single_refs))       # a cell some criterion is built from
                    else:
                        cc, rr = rh.randint(1, 4), rh.randrange(rows + pad)      # incl. rows appended below the table
                    v = rh.choice([rh.randint(0, 31), rh.choice([0, 1, 5, 29, 30, 31, 2.5]), rh.choice(pool_txt), rh.choice(pool_txt)])
                    sets.append({'tg': [cc, rr], 'v': v})
                ent['set'] = sets
                if rh.random() < 0.4:
                    ent['mutate_after'] = True        # ... and changes the objects it passed once the call has returned
            ent['perm'] = rh.randrange(1 << 30) if rh.random() < 0.5 else 0
            if rh.random() < 0.25:
                ent['repeat'] = True          # evaluate everything twice at this instant
            if rh.random() < 0.2:
                ent['deep'] = True            # pristine side: a brand-new CLASS per cell, not only a new executor
        timeline.append(ent)
    if rule_zone:
        idx = [i for i in range(1, len(timeline)) if rz.random() < 0.5] or [len(timeline) - 1]
        for i in idx:
            timeline[i]['tz'] = rule_zone
    return {'engine': NAME, 'mode': 'invariance', 'seed': seed, 'swarm': swarm, 'spec': spec, 'n_formulas': n, 'timeline': timeline,
            'env': core.gen_env(seed)}


def _has_today(f):
    return isinstance(f, str) and 'TODAY' in f


def _reads_today(spec, k):
    """The formula in cell k contains TODAY() or refers to a cell whose formula does (one level: the matrix has no chains)."""
    cells = spec['sheets'][0]['cells']
    f = cells.get(k)
    if _has_today(f):
        return True
    if isinstance(f, str) and f.startswith('='):
        for m in re.finditer(r'(?<![A-Z:$])([A-Z])(\d+)(?![:\d])', re.sub(r'"[^"]*"', '""', f)):
            if _has_today(cells.get(m.group(1) + m.group(2))):
                return True
    return False


def _exec_invariance(plan):
    import simclock
    from excel2pycl import Parser, Executor, Cell
    probes = {}

    def probe(name, n=1):
        probes[name] = probes.get(name, 0) + n

    simfs.reset()
    spec = plan['spec']
    t0 = plan['timeline'][0]
    simclock.set_tz(t0['tz'])
    simclock.set_step_ns(0)
    simclock.set_ns(t0['ns'])
    if plan.get('pin_dateutil_default'):
        _pin_dateutil_default()
    simclock.set_ns(BUILD_NS)          # zip cannot stamp entries before 1980: build at a fixed sane instant
    simfs.DISK.put(WB_PATH, wbgen.build_bytes(spec))
    simclock.set_ns(t0['ns'])
    try:
        src = Parser().disable_safety_check().set_excel_file_path(WB_PATH).get_translation()
        ns_ = {}
        code_ = compile(src, '<generated>', 'exec')
        exec(code_, ns_)
        K = ns_['ExcelInPython']
    except Exception as e:
        return {'digest': core.digest(['translate-failed', type(e).__name__]), 'mismatches': [], 'probes': {'translate_failed': 1},
                'nontrivial': False, 'sig': 'translate-failed', 'steps': 0, 'log': []}
    ex = Executor().set_executed_class(class_object=K)
    cells = [(k,) + wbgen.parse_a1(k) for k, v in spec['sheets'][0]['cells'].items() if isinstance(v, str) and v.startswith('=')]
    cells.sort(key=lambda t: (t[1], t[2]))
    log = []
    feats = set()
    sim_time = 0.0
    prev = None
    omap = {}                  # (col,row) -> constant most recently supplied through set_cells
    epoch = 0                  # number of set events so far
    history = any(('set' in t or t.get('perm') or t.get('repeat') or t.get('deep')) for t in plan['timeline'])
    mism = []

    def evaluate(executor, t, cc, rr):
        simclock.set_ns(t['ns'])
        simclock.set_step_ns(t['step_ns'])
        r0 = simclock.reads()
        try:
            out = outcome_of_value(executor.get_cell(Cell(0, cc, rr)).value)
        except Exception as e:
            out = outcome_of_exc(e)
        simclock.set_step_ns(0)
        return out, simclock.reads() - r0

    for ti, t in enumerate(plan['timeline']):
        simclock.set_tz(t['tz'])
        simclock.set_step_ns(0)
        simclock.set_ns(t['ns'])
        ld = local_date(t['tz'], t['ns'])
        if ld != libc_local_date(t['ns']):
            probe('tz_model_disagreement')
        ud = local_date('UTC0', t['ns'])
        if ld != ud:
            probe('local_date_differs_from_utc_date')
            feats.add('local!=utc')
        if prev is not None:
            sim_time += abs(t['ns'] - prev['ns']) / 1e9
            pl = local_date(prev['tz'], prev['ns'])
            if _mlen(pl.year, pl.month) != _mlen(ld.year, ld.month):
                probe('month_length_class_changed')
                feats.add('month-class')
            if (pl.year, pl.month) != (ld.year, ld.month):
                feats.add('month-crossed')
            if t['tz'] != prev['tz']:
                probe('tz_changed')
                if _TZ_RE.match(t['tz']).group(3) or _TZ_RE.match(prev['tz']).group(3):
                    probe('switched_between_fixed_offset_and_dst_rule_zone')
        prev = t
        if t.get('set'):
            batch = []
            for c in t['set']:
                cc, rr = c['tg']
                if (cc, rr) in omap:
                    probe('criteria_cell_overridden_again')
                if rr >= wbgen.used_range(spec['sheets'][0])[1]:
                    probe('override_below_the_table_inside_a_declared_range')
                omap[(cc, rr)] = c['v']
                batch.append(Cell(0, cc, rr, dec_value(c['v'])))
            try:
                ex.set_cells(batch)
                set_out = ['ok']
            except Exception as e:
                set_out = outcome_of_exc(e)
                mism.append({'key': 'set-raised', 'cell': '', 'formula': '', 'instants': [ti, ti], 'dates': [ld.isoformat()] * 2,
                             'observed': set_out, 'expected': ['ok']})
            if t.get('mutate_after'):
                for c_ in batch:
                    c_.value = 'changed-by-the-caller-after-the-call'
                probe('caller_changed_passed_cell_objects_afterwards')
            epoch += 1
            probe('override_between_two_instants')
            feats.add('override')
        order = list(cells)
        if t.get('perm'):
            core.rng(t['perm'], 'perm').shuffle(order)
            probe('query_order_permuted')
        row = {}
        for rep in range(2 if t.get('repeat') else 1):
            for k, cc, rr in order:
                out, nreads = evaluate(ex, t, cc, rr)
                after = t['ns'] + nreads * t['step_ns']
                if t['step_ns'] and nreads >= 2 and local_date(t['tz'], after) != ld:
                    probe('midnight_crossed_inside_one_evaluation')
                    feats.add('midnight-inside')
                if nreads and not _reads_today(spec, k):
                    probe('cell_without_TODAY_reads_the_clock')
                if rep and row[k][0] != out and (not t['step_ns'] or not _reads_today(spec, k)):
                    mism.append({'key': 'history-dependent-result', 'cell': k, 'formula': spec['sheets'][0]['cells'][k], 'instants': [ti, ti],
                                 'dates': [ld.isoformat()] * 2, 'observed': out, 'expected': row[k][0], 'why': 'repeated query at one instant'})
                row[k] = [out, nreads]
        ent = {'t': ti, 'date': ld.isoformat(), 'row': row, 'epoch': epoch}
        if history:
            # pristine executions: a new executor per cell, the current overrides applied once, same instant
            pr = {}
            for k, cc, rr in cells:
                if _reads_today(spec, k):
                    # moves with the date: comparable only while the clock stands still
                    if t['step_ns']:
                        continue
                    probe('today_criterion_compared_with_pristine_executor')
                K_ = K
                if t.get('deep'):
                    # no history at all on the pristine side: not even in class-level or module-level state
                    ns2_ = {}
                    exec(code_, ns2_)
                    K_ = ns2_['ExcelInPython']
                    probe('pristine_side_used_a_brand_new_class')
                pex = Executor().set_executed_class(class_object=K_)
                if t.get('deep'):
                    core.reset_interpreter_state(plan.get('env'))
                if omap:
                    pex.set_cells([Cell(0, c_, r_, dec_value(v_)) for (c_, r_), v_ in sorted(omap.items())])
                out, _n = evaluate(pex, t, cc, rr)
                pr[k] = out
                if out != row[k][0]:
                    mism.append({'key': 'history-dependent-result', 'cell': k, 'formula': spec['sheets'][0]['cells'][k], 'instants': [ti, ti],
                                 'dates': [ld.isoformat()] * 2, 'observed': row[k][0], 'expected': out,
                                 'why': 'used executor differs from a pristine executor with the same overrides',
                                 'overrides': [[c_, r_, v_] for (c_, r_), v_ in sorted(omap.items())]})
            ent['pristine'] = pr
            probe('compared_with_pristine_executor', len(pr))
        log.append(ent)
    # oracle (iii): the same cells in a pristine FOREIGN process - other string hash seed, no history, first instant
    ref = CTX.get('ref') if CTX else None
    if ref is not None and log:
        t0_ = plan['timeline'][0]
        try:
            rr_ = ref({'kind': 'c12', 'spec': spec, 'ns': t0_['ns'], 'tz': t0_['tz']})
        except Exception as e:
            raise core.HarnessError('reference: %r' % (e,))
        if rr_.get('cells') is not None:
            n_cmp = 0
            for k, cc, rr in cells:
                if _reads_today(spec, k) or k not in rr_['cells']:
                    continue
                n_cmp += 1
                if rr_['cells'][k] != log[0]['row'][k][0]:
                    mism.append({'key': 'process-dependent-result', 'cell': k, 'formula': spec['sheets'][0]['cells'][k], 'instants': [0, 0],
                                 'dates': [log[0]['date']] * 2, 'observed': log[0]['row'][k][0], 'expected': rr_['cells'][k],
                                 'why': 'differs from the same cell in a pristine process with another string hash seed'})
            probe('compared_with_foreign_process', n_cmp)
    # oracle: identical outcome at all instants of one override epoch for every cell without TODAY()
    for k, cc, rr in cells:
        f = spec['sheets'][0]['cells'][k]
        if _reads_today(spec, k):
            continue
        first = {}
        for ent in log:
            e0 = first.setdefault(ent['epoch'], ent)
            if ent['row'][k][0] != e0['row'][k][0]:
                mism.append({'key': 'clock-dependent-result', 'cell': k, 'formula': f, 'instants': [e0['t'], ent['t']],
                             'dates': [e0['date'], ent['date']], 'observed': ent['row'][k][0], 'expected': e0['row'][k][0],
                             'zones': [plan['timeline'][e0['t']]['tz'], plan['timeline'][ent['t']]['tz']]})
                break
    seen = set()
    uniq = []
    for m in mism:
        if (m['key'], m['cell']) not in seen:
            seen.add((m['key'], m['cell']))
            uniq.append(m)
    return {'log': log, 'probes': probes, 'steps': len(cells) * len(plan['timeline']), 'mismatches': uniq[:6],
            'nontrivial': bool(feats), 'sig': core.digest([plan['spec'], plan['timeline']]), 'sim_time_s': sim_time,
            'digest': core.digest(log)}


def _pin_dateutil_default():
    """Counterfactual used only to ATTRIBUTE a violation: dateutil completes missing fields from a
    fixed date instead of from today."""
    import dateutil.parser._parser as P
    orig = P.parser.parse
    if getattr(orig, '_pinned', False):
        return

    def parse(self, timestr, default=None, *a, **kw):
        if default is None:
            default = datetime.datetime(2001, 1, 31)
        return orig(self, timestr, default, *a, **kw)

    parse._pinned = True
    P.parser.parse = parse


# ----------------------------------------------------------------------------------------------
# calendar mode: the TODAY() dashboard

def _dash_workbook(r):
    """Column A: formulas; B1 start date, B2 deadline, C1:C6 holidays; D: indirection through cells."""
    ks = [-12, -1, 0, 1, 12]
    f = [('today', '=TODAY()'), ('year', '=YEAR(TODAY())'), ('month', '=MONTH(TODAY())'), ('day', '=DAY(TODAY())'),
         ('inv', '=DATE(YEAR(TODAY()),MONTH(TODAY()),DAY(TODAY()))')]
    for k in ks:
        f.append(('eomonth:%d' % k, '=EOMONTH(TODAY(),%d)' % k))
    for k in ks:
        f.append(('edate:%d' % k, '=EDATE(TODAY(),%d)' % k))
    f += [('eom_idiom', '=DATE(YEAR(TODAY()),MONTH(TODAY())+1,0)'), ('jan1', '=DATE(YEAR(TODAY()),1,1)'),
          ('dif:D', '=DATEDIF(B1,TODAY(),"D")'), ('dif:M', '=DATEDIF(B1,TODAY(),"M")'),
          ('dif:Y', '=DATEDIF(B1,TODAY(),"Y")'), ('dif:YM', '=DATEDIF(B1,TODAY(),"YM")'),
          ('nwd_to', '=NETWORKDAYS(TODAY(),B2)'), ('nwd_from', '=NETWORKDAYS(B3,TODAY(),C1:C6)'),
          ('nwd_to_h', '=NETWORKDAYS(TODAY(),B2,C1:C6)'),
          ('late', '=IF(TODAY()>B2,"late","ok")')]
    ref = a1(0, len(f))      # the cell that holds a plain =TODAY(); the next ones go through it
    f += [('d_today', '=TODAY()'), ('d_year', '=YEAR(%s)' % ref), ('d_eom', '=EOMONTH(%s,0)' % ref),
          ('d_dif', '=DATEDIF(B1,%s,"M")' % ref), ('d_day', '=DAY(%s)' % ref)]
    cells = {}
    names = {}
    for i, (name, text) in enumerate(f):
        cells[a1(0, i)] = text
        names[a1(0, i)] = name
    return cells, names


def _gen_calendar(seed, cfg):
    r = core.rng(seed, 'clocksim', 'calendar')
    swarm = {'auto_advance': r.random() < 0.25, 'rule_zones': r.random() < 0.5, 'backward': r.random() < 0.6,
             'base_class': r.random() < 0.5, 'long_span': r.random() < 0.3}
    swarm.update(cfg.get('swarm', {}))
    cells, names = _dash_workbook(r)
    # window of the run
    y0 = r.randint(1975, 2090)
    center = to_ns(datetime.datetime(y0, r.randint(1, 12), r.randint(1, 28)))
    span_days = r.choice([3, 40, 400]) if not swarm['long_span'] else r.choice([4000, 9000])
    # start date B1: before the window (leap days and month ends over-represented), deadline B2 near it
    sy = y0 - r.choice([0, 1, 2, 5, 18, 36, 60])
    sy = max(sy, 1905)
    k = r.random()
    if k < 0.3:
        sy -= sy % 4
        if sy % 100 == 0 and sy % 400 != 0:
            sy -= 4
        start = datetime.datetime(sy, 2, 29)
    elif k < 0.6:
        m = r.randint(1, 12)
        start = datetime.datetime(sy, m, _mlen(sy, m))
    else:
        start = datetime.datetime(sy, r.randint(1, 12), r.randint(1, 28))
    if to_ns(start) > center - span_days * DAY * 10**9:
        start = start.replace(year=start.year - 1) if not (start.month == 2 and start.day == 29) else start.replace(year=start.year - 4)
    c_dt = EPOCH + datetime.timedelta(seconds=center // 10**9)
    deadline = (c_dt + datetime.timedelta(days=r.randint(-60, 60))).replace(hour=0, minute=0, second=0)
    cells['B1'] = enc_value(start)
    cells['B2'] = enc_value(deadline)
    cells['B3'] = enc_value((c_dt - datetime.timedelta(days=r.randint(0, 400))).replace(hour=0, minute=0, second=0))
    hol = []
    for i in range(6):
        if r.random() < 0.7:
            h = (c_dt + datetime.timedelta(days=r.randint(-40, 40))).replace(hour=0, minute=0, second=0)
            cells[a1(2, i)] = enc_value(h)
    spec = {'sheets': [{'title': 'Dash', 'cells': cells}]}
    # timeline
    zones = FIXED_TZ + (RULE_TZ * 3 if swarm['rule_zones'] else [])
    tz = r.choice(zones)
    now = center
    ev = [{'op': 'tz', 'tz': tz}, {'op': 'jump', 'ns': now}, {'op': 'translate'}]
    if r.random() < 0.5:
        now += r.choice([1, 3600, DAY, 40 * DAY]) * 10**9
        ev.append({'op': 'jump', 'ns': now})
    ev.append({'op': 'instantiate'})
    n = r.randint(20, 120) if r.random() < 0.3 else r.randint(8, 40)
    lo, hi = to_ns(datetime.datetime(1971, 1, 2)), to_ns(datetime.datetime(2099, 12, 30))
    for _ in range(n):
        k = r.random()
        if k < 0.40:
            ev.append({'op': 'query'})
        elif k < 0.50:
            tz = r.choice(zones)
            ev.append({'op': 'tz', 'tz': tz})
        elif k < 0.55:
            ev.append({'op': 'instantiate'})
        elif k < 0.58:
            ev.append({'op': 'translate'})
        elif k < 0.62 and swarm['auto_advance']:
            ev.append({'op': 'step', 'step_ns': r.choice([0, 10**9, 3600 * 10**9, 5 * 3600 * 10**9])})
        else:
            j = r.random()
            if j < 0.45:
                # land within a few seconds of a local midnight
                off = utc_offset(tz, now // 10**9)
                days = r.choice([0, 1, 1, 2, 30, 31, 365, 366]) * (r.choice([1, 1, -1]) if swarm['backward'] else 1)
                local_s = now // 10**9 + off
                midnight = (local_s // DAY + days) * DAY
                tgt = midnight - off + r.choice([-2, -1, 0, 1, 2])
                now = tgt * 10**9
            elif j < 0.7:
                # month ends / 29 Feb / 31 Dec near the window
                base = EPOCH + datetime.timedelta(seconds=now // 10**9)
                y = base.year + r.choice([0, 0, 1, -1])
                y = min(max(y, 1972), 2098)
                m, d = r.choice([(2, _mlen(y, 2)), (12, 31), (1, 1), (3, 1), (r.randint(1, 12), 0)])
                if d == 0:
                    d = _mlen(y, m)
                now = to_ns(datetime.datetime(y, m, d, r.choice([0, 12, 23]), r.choice([0, 59]), r.choice([0, 59])))
            elif j < 0.85 and swarm['rule_zones'] and tz in RULE_TZ:
                # straddle a DST transition of the current zone
                y = (EPOCH + datetime.timedelta(seconds=now // 10**9)).year
                m_ = _TZ_RE.match(tz)
                d = _mwd(y, r.choice([m_.group(5), m_.group(7)]))
                now = to_ns(datetime.datetime(d.year, d.month, d.day)) + r.randint(-30 * 3600, 30 * 3600) * 10**9
            else:
                delta = r.choice([1, 59, 3600, DAY, 7 * DAY, 31 * DAY, 366 * DAY]) * r.randint(1, 3)
                if swarm['backward'] and r.random() < 0.4:
                    delta = -delta
                now += delta * 10**9
            span = span_days * DAY * 10**9
            now = min(max(now, center - span, lo), center + span, hi)
            ev.append({'op': 'jump', 'ns': now})
    # the days that are special to the WORKBOOK (own stream): a listed holiday, the deadline, the start of an interval -
    # TODAY() equal to an endpoint or to a holiday is where inclusive/exclusive mistakes live
    rs_ = core.rng(seed, 'clocksim', 'calendar', 'special-days')
    special = [dec_value(v) for k_, v in cells.items() if k_ in ('B1', 'B2', 'B3') or (k_[0] == 'C' and isinstance(v, dict))]
    special = [d_ for d_ in special if datetime.datetime(1971, 1, 3) < d_ < datetime.datetime(2099, 12, 28)]
    if special and rs_.random() < 0.7:
        for _ in range(rs_.randint(1, 4)):
            d_ = rs_.choice(special)
            off = utc_offset(tz, to_ns(d_) // 10**9)
            local_s = to_ns(d_) // 10**9 + rs_.choice([0, 1, 12 * 3600, DAY - 1])      # that local day, early / noon / late
            pos = rs_.randrange(5, len(ev) + 1) if len(ev) > 5 else len(ev)
            ev[pos:pos] = [{'op': 'jump', 'ns': (local_s - off) * 10**9}, {'op': 'query'}]
    ev.append({'op': 'query'})
    return {'engine': NAME, 'mode': 'calendar', 'seed': seed, 'swarm': swarm, 'spec': spec, 'names': names, 'events': ev,
            'env': core.gen_env(seed)}


# independent calendar arithmetic -----------------------------------------------------------------

def _add_months(d, k):
    m0 = d.year * 12 + (d.month - 1) + k
    y, m = divmod(m0, 12)
    return y, m + 1


def x_edate(d, k):
    y, m = _add_months(d, k)
    return datetime.datetime(y, m, min(d.day, _mlen(y, m)))


def x_eomonth(d, k):
    y, m = _add_months(d, k)
    return datetime.datetime(y, m, _mlen(y, m))


def x_date(y, m, d):
    yy, mm = divmod(y * 12 + (m - 1), 12)
    return datetime.datetime(yy, mm + 1, 1) + datetime.timedelta(days=d - 1)


def x_months(s, e):
    """admissible counts of complete months between s <= e (Excel day-of-month sense; on the one
    edge where the start day does not exist in the end month and e is that month's last day, the
    clamping sense is accepted too)."""
    m = (e.year - s.year) * 12 + (e.month - s.month) - (1 if e.day < s.day else 0)
    out = {m}
    if e.day < s.day and e.day == _mlen(e.year, e.month):
        out.add(m + 1)
    return out


def x_networkdays(s, e, holidays):
    sign = 1
    if s > e:
        s, e, sign = e, s, -1
    n = 0
    d = s
    hs = set(holidays)
    while d <= e:
        if d.weekday() < 5 and d not in hs:
            n += 1
        d += datetime.timedelta(days=1)
    return sign * n


def expected_for(name, today, start, deadline, holidays, recent=None):
    """Set of admissible outcomes for dashboard cell `name` when the local date is `today`
    (a datetime.date), or None when the statement does not define the value."""
    T = datetime.datetime(today.year, today.month, today.day)

    def dt(x):
        return outcome_of_value(x)

    if name in ('today', 'inv', 'd_today'):
        return [dt(T)]
    if name in ('year', 'd_year'):
        return [dt(T.year)]
    if name == 'month':
        return [dt(T.month)]
    if name in ('day', 'd_day'):
        return [dt(T.day)]
    if name.startswith('eomonth:'):
        return [dt(x_eomonth(T, int(name.split(':')[1])))]
    if name == 'd_eom':
        return [dt(x_eomonth(T, 0))]
    if name.startswith('edate:'):
        return [dt(x_edate(T, int(name.split(':')[1])))]
    if name == 'eom_idiom':
        return [dt(x_date(T.year, T.month + 1, 0))]
    if name == 'jan1':
        return [dt(datetime.datetime(T.year, 1, 1))]
    if name.startswith('dif:') or name == 'd_dif':
        if start > T:
            return None           # start after end: not defined by the statement
        unit = 'M' if name == 'd_dif' else name.split(':')[1]
        if unit == 'D':
            return [dt((T - start).days)]
        ms = x_months(start, T)
        if unit == 'M':
            return [dt(m) for m in sorted(ms)]
        if unit == 'Y':
            return [dt(m // 12) for m in sorted(ms)]
        if unit == 'YM':
            return [dt(m % 12) for m in sorted(ms)]
    if name == 'nwd_to':
        return [dt(x_networkdays(T.date(), deadline.date(), []))]
    if name == 'nwd_to_h':
        return [dt(x_networkdays(T.date(), deadline.date(), [h.date() for h in holidays]))]
    if name == 'nwd_from':
        return [dt(x_networkdays(recent.date(), T.date(), [h.date() for h in holidays]))]
    if name == 'late':
        return [dt('late' if T > deadline else 'ok')]
    raise KeyError(name)


def _today_occurrences(cells, k, depth=0):
    """How many times TODAY() is called when cell k is evaluated (through references to other formula cells too)."""
    f = cells.get(k)
    if not (isinstance(f, str) and f.startswith('=')) or depth > 3:
        return 0
    n = f.count('TODAY()')
    for m in re.finditer(r'(?<![A-Z:$])([A-Z])(\d+)(?![:\d(])', re.sub(r'"[^"]*"', '""', f)):
        n += _today_occurrences(cells, m.group(1) + m.group(2), depth + 1)
    return n


def _exec_calendar(plan):
    import simclock
    from excel2pycl import Parser, Executor, Cell
    from excel2pycl.src.utilities.abstract_excel_in_python_class import AbstractExcelInPython
    probes = {}

    def probe(name, n=1):
        probes[name] = probes.get(name, 0) + n

    simfs.reset()
    spec = plan['spec']
    names = plan['names']
    cellsd = spec['sheets'][0]['cells']
    start = dec_value(cellsd['B1'])
    deadline = dec_value(cellsd['B2'])
    recent = dec_value(cellsd['B3'])
    holidays = [dec_value(cellsd[a1(2, i)]) for i in range(6) if a1(2, i) in cellsd]
    tz = 'UTC0'
    now = BUILD_NS
    step = 0
    simclock.set_tz(tz)
    simclock.set_step_ns(0)
    simclock.set_ns(now)
    simfs.DISK.put(WB_PATH, wbgen.build_bytes(spec))
    K = None
    B = None
    exs = []
    log = []
    mism = []
    feats = set()
    sim_time = 0.0
    last_query_date = None
    use_base = plan['swarm'].get('base_class')
    qn = 0
    for i, ev in enumerate(plan['events']):
        op = ev['op']
        if op == 'tz':
            tz = ev['tz']
            simclock.set_tz(tz)
            probe('tz_changed')
        elif op == 'jump':
            if ev['ns'] < now:
                probe('clock_stepped_backward')
                feats.add('backward')
            sim_time += abs(ev['ns'] - now) / 1e9
            before, after = local_date(tz, now), local_date(tz, ev['ns'])
            if (before.year, before.month) != (after.year, after.month):
                feats.add('month-crossed')
                probe('month_crossed')
            if (after.month, after.day) == (2, 29) or (before.month, before.day) == (2, 29):
                probe('feb29_reached')
                feats.add('feb29')
            m_ = _TZ_RE.match(tz)
            if m_.group(3) and utc_offset(tz, now // 10**9) != utc_offset(tz, ev['ns'] // 10**9):
                probe('dst_transition_crossed')
                feats.add('dst')
            now = ev['ns']
            simclock.set_ns(now)
        elif op == 'step':
            step = ev['step_ns']
        elif op == 'translate':
            simclock.set_step_ns(0)
            simclock.set_ns(now)
            src = Parser().disable_safety_check().set_excel_file_path(WB_PATH).get_translation()
            ns_ = {}
            exec(compile(src, '<generated>', 'exec'), ns_)
            K = ns_['ExcelInPython']
            G = K

            class Base(AbstractExcelInPython):
                def __init__(self, a=None):
                    super().__init__(a)
                    g = G()
                    self._titles = dict(g.get_titles())
                    self._sheets_size = [dict(d) for d in g.get_sheets_size()]
            for n_, fn in K.__dict__.items():
                if re.fullmatch(r'_\d+_\d+_(\d+|any)(_\d+)*', n_):
                    setattr(Base, n_, fn)
            B = Base
            exs = []
            probe('translated')
        elif op == 'instantiate':
            if K is None:
                continue
            simclock.set_step_ns(0)
            simclock.set_ns(now)
            exs = [('generated', Executor().set_executed_class(class_object=K))]
            if use_base:
                exs.append(('base', Executor().set_executed_class(class_object=B)))
            probe('instantiated')
        elif op == 'query':
            if not exs:
                continue
            qn += 1
            ld = local_date(tz, now)
            if ld != libc_local_date(now):
                probe('tz_model_disagreement')
                continue
            if ld != local_date('UTC0', now):
                probe('local_date_differs_from_utc_date')
                feats.add('local!=utc')
            if last_query_date is not None and last_query_date != ld:
                probe('midnight_crossed_between_two_queries')
                feats.add('midnight')
            last_query_date = ld
            off = utc_offset(tz, now // 10**9)
            sec_of_day = (now // 10**9 + off) % DAY
            if sec_of_day < 3 or sec_of_day > DAY - 3:
                probe('query_within_2s_of_local_midnight')
            for which, ex in exs:
                row = {}
                for k in sorted(names, key=lambda s: wbgen.parse_a1(s)[1]):
                    cc, rr = wbgen.parse_a1(k)
                    simclock.set_ns(now)
                    simclock.set_step_ns(step)
                    r0 = simclock.reads()
                    try:
                        out = outcome_of_value(ex.get_cell(Cell(0, cc, rr)).value)
                    except Exception as e:
                        out = outcome_of_exc(e)
                    simclock.set_step_ns(0)
                    nreads = simclock.reads() - r0
                    after_ns = now + nreads * step
                    ld2 = local_date(tz, after_ns)
                    row[k] = [out, nreads]
                    exp = expected_for(names[k], ld, start, deadline, holidays, recent)
                    if ld2 != ld:
                        probe('midnight_crossed_inside_one_evaluation')
                        feats.add('midnight-inside')
                        if ld2 != libc_local_date(after_ns):
                            continue
                        if nreads != 1 and _today_occurrences(cellsd, k) != 1:
                            continue            # several TODAY() calls in one formula may legitimately see two dates
                        # ONE TODAY() - however often the library reads the clock for it - must be a date the clock
                        # actually showed during the evaluation: the date of the first read, of the last, or one between
                        probe('single_TODAY_evaluated_across_midnight')
                        d_ = ld
                        while d_ < ld2 and exp is not None:
                            d_ = d_ + datetime.timedelta(days=1)
                            e2 = expected_for(names[k], d_, start, deadline, holidays, recent)
                            exp = None if e2 is None else exp + e2
                    if exp is None:
                        probe('datedif_start_after_end_not_compared')
                        continue
                    if out not in exp:
                        mism.append({'key': 'calendar:' + names[k].split(':')[0] + (':' + names[k].split(':')[1] if names[k].startswith('dif') else ''),
                                     'cell': k, 'name': names[k], 'formula': cellsd[k], 'which': which, 'event': i, 'tz': tz, 'ns': now,
                                     'local_date': ld.isoformat(), 'start': start.isoformat(), 'observed': out, 'expected': exp[0] if len(exp) == 1 else ['one-of'] + exp})
                log.append({'e': i, 'which': which, 'date': ld.isoformat(), 'row': row})
            now = now + 0
            simclock.set_ns(now)
    # de-duplicate mismatches per key
    seen = set()
    uniq = []
    for m in mism:
        if m['key'] not in seen:
            seen.add(m['key'])
            uniq.append(m)
    return {'log': log, 'probes': probes, 'steps': qn * len(names), 'mismatches': uniq[:8], 'nontrivial': bool(feats),
            'sig': core.digest([plan['spec'], plan['events']]), 'sim_time_s': sim_time, 'digest': core.digest(log)}


# ----------------------------------------------------------------------------------------------

def gen_plan(seed, cfg):
    return _gen_invariance(seed, cfg) if cfg.get('mode') == 'invariance' else _gen_calendar(seed, cfg)


CTX = {}


def ref_init():
    pass


def ref_handle(req):
    """Reference server side: translate the matrix and evaluate every TODAY-free formula cell once, on a fresh executor
    each, in this pristine process (other hash seed, default process settings)."""
    import simclock
    from excel2pycl import Parser, Executor, Cell
    simclock.set_tz(req.get('tz', 'UTC0'))
    simclock.set_step_ns(0)
    simclock.set_ns(BUILD_NS)
    simfs.reset()
    spec = req['spec']
    simfs.DISK.put(WB_PATH, wbgen.build_bytes(spec))
    simclock.set_ns(req['ns'])
    try:
        src = Parser().disable_safety_check().set_excel_file_path(WB_PATH).get_translation()
        ns_ = {}
        exec(compile(src, '<reference>', 'exec'), ns_)
        K = ns_['ExcelInPython']
    except Exception as e:
        return {'cells': None, 'why': type(e).__name__}
    out = {}
    for k, v in spec['sheets'][0]['cells'].items():
        if isinstance(v, str) and v.startswith('=') and not _reads_today(spec, k):
            cc, rr = wbgen.parse_a1(k)
            simclock.set_ns(req['ns'])
            core.reset_interpreter_state(None)
            try:
                out[k] = outcome_of_value(Executor().set_executed_class(class_object=K).get_cell(Cell(0, cc, rr)).value)
            except Exception as e:
                out[k] = outcome_of_exc(e)
    return {'cells': out}


def run(req, ctx):
    import simclock
    simclock.preflight()
    CTX.clear()
    CTX.update(ctx or {})
    plan = req.get('plan') or gen_plan(req['seed'], req.get('cfg', {}))
    env_fired = core.apply_env(plan.get('env'))          # process-global stdlib settings of an embedding application
    res = _exec_invariance(plan) if plan['mode'] == 'invariance' else _exec_calendar(plan)
    for k_, v_ in env_fired.items():
        res.setdefault('probes', {})[k_] = v_
    if req.get('want_plan') or res['mismatches']:
        res['plan'] = plan
    if not req.get('want_log'):
        res.pop('log', None)
    return res


def describe(plan, m):
    if plan['mode'] == 'invariance':
        if m.get('key') != 'clock-dependent-result':
            return '%s: %s %s on %s: observed %s, expected %s (%s; overrides %s)' % (
                m.get('key'), m.get('cell'), m.get('formula'), m['dates'][0], m['observed'], m['expected'], m.get('why', ''), m.get('overrides'))
        z = m.get('zones') or ['', '']
        return '%s: %s gives %s on %s (zone %s) but %s on %s (zone %s)' % (m['cell'], m['formula'], m['expected'], m['dates'][0], z[0],
                                                                          m['observed'], m['dates'][1], z[1])
    return '%s (%s, %s class) at local date %s zone %s: observed %s, expected %s (start %s)' % (
        m['cell'], m['formula'], m['which'], m['local_date'], m['tz'], m['observed'], m['expected'], m.get('start'))


def shrink(plan):
    if plan.get('env'):
        p = copy.deepcopy(plan)
        p['env'] = {}
        yield p
    if plan['mode'] == 'invariance':
        tl = plan['timeline']
        # keep only two instants
        if len(tl) > 2:
            for i in range(1, len(tl)):
                p = copy.deepcopy(plan)
                p['timeline'] = [tl[0], tl[i]]
                yield p
            for i in range(len(tl)):
                p = copy.deepcopy(plan)
                del p['timeline'][i]
                yield p
        # drop formulas in chunks, then singly; then data cells
        cells = plan['spec']['sheets'][0]['cells']
        fkeys = [k for k, v in cells.items() if isinstance(v, str) and v.startswith('=')]
        dkeys = [k for k in cells if k not in fkeys]
        for keys in (fkeys, dkeys):
            chunk = max(1, len(keys) // 2)
            while chunk >= 1:
                for i in range(0, len(keys), chunk):
                    drop = set(keys[i:i + chunk])
                    if len(drop) >= len(cells):
                        continue
                    p = copy.deepcopy(plan)
                    p['spec']['sheets'][0]['cells'] = {k: v for k, v in cells.items() if k not in drop}
                    yield p
                chunk //= 2
        for i, t in enumerate(tl):
            if t.get('mutate_after'):
                p = copy.deepcopy(plan)
                del p['timeline'][i]['mutate_after']
                yield p
            if t.get('set'):
                p = copy.deepcopy(plan)
                del p['timeline'][i]['set']
                p['timeline'][i].pop('mutate_after', None)
                yield p
                if len(t['set']) > 1:
                    for j in range(len(t['set'])):
                        p = copy.deepcopy(plan)
                        del p['timeline'][i]['set'][j]
                        yield p
            if t.get('perm') or t.get('repeat'):
                p = copy.deepcopy(plan)
                p['timeline'][i].pop('perm', None)
                p['timeline'][i].pop('repeat', None)
                yield p
            if t.get('deep'):
                p = copy.deepcopy(plan)
                p['timeline'][i].pop('deep', None)
                yield p
        for i, t in enumerate(tl):
            if t['tz'] != 'UTC0' or t['step_ns']:
                p = copy.deepcopy(plan)
                p['timeline'][i]['tz'] = 'UTC0'
                p['timeline'][i]['step_ns'] = 0
                yield p
    else:
        ev = plan['events']
        n = len(ev)
        chunk = max(1, n // 2)
        while chunk >= 1:
            for i in range(0, n, chunk):
                keep = ev[:i] + ev[i + chunk:]
                if any(e['op'] == 'query' for e in keep) and any(e['op'] == 'translate' for e in keep):
                    p = copy.deepcopy(plan)
                    p['events'] = copy.deepcopy(keep)
                    yield p
            chunk //= 2
        if plan['swarm'].get('base_class'):
            p = copy.deepcopy(plan)
            p['swarm']['base_class'] = False
            yield p
        for i, e in enumerate(ev):
            if e['op'] == 'tz' and e['tz'] != 'UTC0':
                p = copy.deepcopy(plan)
                p['events'][i]['tz'] = 'UTC0'
                yield p
        for k in [a1(2, i) for i in range(6)]:
            if k in plan['spec']['sheets'][0]['cells']:
                p = copy.deepcopy(plan)
                del p['spec']['sheets'][0]['cells'][k]
                yield p


_PROBE_DATES = [datetime.datetime(2024, 1, 31), datetime.datetime(2024, 2, 29), datetime.datetime(2023, 2, 28), datetime.datetime(2024, 4, 30)]


def datelike(text):
    """True if dateutil completes `text` differently (or only sometimes) depending on the default date."""
    from dateutil import parser as P
    outs = []
    for d in _PROBE_DATES:
        try:
            outs.append(P.parse(text, default=d).isoformat())
        except Exception as e:
            outs.append(type(e).__name__)
    return len(set(outs)) > 1


def matches_finding(plan, mismatch, finding, rerun=None):
    kind = finding.get('signature', {}).get('kind')
    if kind == 'c12-dateutil-default-today':
        if plan['mode'] != 'invariance' or mismatch.get('key') != 'clock-dependent-result':
            return False
        cells = plan['spec']['sheets'][0]['cells']
        f = mismatch.get('formula', '')
        texts = re.findall(r'"([^"]*)"', f)
        texts = [re.sub(r'^(>=|<=|<>|>|<|=)', '', t) for t in texts]
        # string cells anywhere in the (small, minimised) matrix count as operands of the lambdas
        texts += [v for v in cells.values() if isinstance(v, str) and not v.startswith('=')]
        if not any(datelike(t) for t in texts if t):
            return False
        if rerun is None:
            return True
        p = copy.deepcopy(plan)
        p['pin_dateutil_default'] = True
        res = rerun(p)
        if not isinstance(res, dict) or 'harness_error' in res:
            return False
        return not [m for m in res.get('mismatches', []) if m.get('cell') == mismatch.get('cell')]
    return False
