"""parsersim — C09: the text returned or written by the parser depends only on the file path, entry
cell and safety setting in force at the time of the call.

System under simulation: 1..3 client threads, each owning its own real Parser, all sharing the
process-global token tables (uninitialised at run start: every run is a fresh fork of a lane that
never parsed), one simulated disk /simfs/ with 2..4 generated workbooks and the clients' output
files, one fault plan, one baton scheduler (pre-emption at line events inside excel2pycl/*).
Simulated dimensions: the call history of each facade, the thread schedule, I/O faults and legal
device behaviour (capped reads, short writes), workbook replacement on disk, hash seed and locale
(lane).  Oracle: every response equals a brand-new Parser configured once with the same final
settings in a pristine FOREIGN process (other hash seed, other cwd, other simulated date, no
threads, no faults)."""
import copy
import errno
import hashlib
import os
import threading

import core
import sched
import simfs
import wbgen
from wbgen import a1, col_letters, sheet_ref

NAME = 'parsersim'
FAULT_PROBES = ('env_calendar_firstweekday_changed', 'env_decimal_context_changed', 'env_warnings_filter_changed', 'env_root_logger_level_changed')
NEEDS_REF = True
RULE = {'': 'one run = 2-4 workbooks from a seeded corpus x 1-3 clients with 3-12 facade operations each (set path / set, replace, '
            're-pass or clear the entry cell / enable, disable safety / get / write / replace a workbook on disk) x a schedule '
            '(sequential, operation-level or line-level pre-emption from a PRNG stream) x 0-2 injected I/O faults and a device '
            'configuration (raw read / write caps); non-trivial = a setter was called on a parser holding a cached translation, or '
            'a fault fired, or a context switch happened inside a lazy-initialisation window or while two clients were inside the '
            'token parser, or a workbook was replaced; distinct = distinct (plan, switch-trace) digests among those'}
ASSUMPTIONS = {'': ['pre-emption points are line events (opcode events in the token-table files on some runs) in frames under '
                    'excel2pycl/; races whose window lies inside one C-level call are not explorable and, under the GIL, not real',
                    'the reference process runs the same library (functional defects shared by both paths cancel out by design)',
                    'when a workbook is replaced on disk without a following set_excel_file_path, the old and the new text are both accepted',
                    'a read fault that fired makes the workbook unreadable for that operation: it may raise anything or still return the reference text, never another text']}

OPCODE_FILES = ('tokens/base_token.py', 'tokens/composite_base_token.py', 'tokens/recursive_composite_base_token.py', 'context.py')


# ----------------------------------------------------------------------------------------------
# workbook corpus

N_CATALOG = 6


def _corpus_item(seed, idx=None):
    """A small workbook + the entry spellings worth trying on it.  The first N_CATALOG indices of a corpus are catalog
    items: together they contain every formula template of execsim exactly once, whatever the seed - so that no translator
    is missing from a corpus by bad luck (a change that only shows in AND/OR went unseen that way once)."""
    r = core.rng(seed, 'corpus')
    if idx is not None and idx < N_CATALOG:
        from engines import execsim
        names = [t[0] for t in execsim.TEMPLATES][idx::N_CATALOG]
        spec, meta = execsim.gen_workbook(r, {'wholecol': idx % 2 == 0, 'poison': False, 'today': False, 'only_templates': names})
        ents = [list(f) for f in meta['formulas']][:5] + [[0, 0, 0]]
        return {'kind': 'catalog', 'spec': spec, 'entries': ents}
    kind = r.choice(['safe', 'safe', 'safe', 'unsafe', 'malformed', 'column', 'swap', 'rich', 'rich', 'rich'])
    if kind == 'rich':
        return _rich_item(r)
    titles = r.sample(['S1', 'S2', 'T 2', 'Лист3', 'Data'], r.choice([2, 2, 3]))
    sheets = []
    for si, t in enumerate(titles):
        rows = r.randint(2, 4)
        cells = {}
        for rr in range(rows):
            cells[a1(0, rr)] = r.randint(1, 20)
            if r.random() < 0.8:
                cells[a1(1, rr)] = r.choice([r.randint(1, 9), 'ab', 'héllo ✓', round(r.uniform(0, 9), 2), True])
        sheets.append({'title': t, 'cells': cells, '_rows': rows})
    s0 = sheets[0]
    rows0 = s0['_rows']
    other = sheet_ref(titles[1])
    # string literals of formulas are copied into the generated source verbatim: characters that Python's str.splitlines
    # (but not the tokenizer) treats as line ends, non-ASCII, quotes
    odd = r.choice(['a\u2028b', 'n\u0085l', 'p\u2029q', 'é✓', 'tab\there'])
    fs = ['=A1+A2', '=SUM(A1:A%d)' % rows0, '=IF(A1>A2,"x",B1)', '=%sA1+1' % other, '=SUM(%sA1:A2)*2' % other, '=IF(A1>0,"%s","n")' % odd, '=B1&"%s"' % odd,
          '=A1*%s' % r.choice(['1.0725', '3.14159265358979', '100.125', '2.5e-3']), '=A2+0.1',
          '=VLOOKUP(A1,A1:B%d,2,FALSE())' % rows0, '=A1&"k"&B1', '=AVERAGE(A:A)', '=COUNTIFS(A1:A%d,">2")' % rows0,
          '=ROUND(A1/3,2)', '=C1+1', '=MAX(A1:B2)']
    r.shuffle(fs)
    nf = r.randint(2, 5)
    for i, f in enumerate(fs[:nf]):
        if f == '=C1+1' and i == 0:
            f = '=A1*2'
        s0['cells'][a1(2, i)] = f
    sheets[1]['cells']['C1'] = '=%sA1*3' % sheet_ref(titles[0])
    sheets[1]['cells']['C2'] = '=A1+A2'
    if kind == 'unsafe':
        r.choice(sheets)['cells'][a1(3, r.randint(0, 2))] = r.choice(['eval(1)', 'os.system(x)', '__import__(y)'])
        if r.random() < 0.5:
            s0['cells'][a1(4, 0)] = 'abs(2)'
    if kind == 'malformed':
        s0['cells'][a1(3, 1)] = r.choice(['=SUM(A1', '=FOO(A1)', '=A1+*2', '=IF(A1)'])
    if kind == 'column':
        s0['cells']['D1'] = '=COLUMN(A1:C1)'
        s0['cells']['D2'] = '=COLUMN(B2)'
    for s in sheets:
        s.pop('_rows')
    spec = {'sheets': sheets}
    if kind == 'swap':
        spec['sheets'] = list(reversed(spec['sheets']))
    # entry candidates: formula cells, a constant, a blank, an out-of-range cell — by (sheet index, col, row)
    titles_now = [s['title'] for s in spec['sheets']]
    ents = []
    for si, s in enumerate(spec['sheets']):
        for k, v in s['cells'].items():
            if isinstance(v, str) and v.startswith('='):
                ents.append([si] + list(wbgen.parse_a1(k)))
    r.shuffle(ents)
    ents = ents[:4]
    ents.append([0, 0, 0])
    ents.append([r.randrange(len(titles_now)), 1, 5])
    ents.append([0, 7, 9])
    return {'kind': kind, 'spec': spec, 'entries': ents}


def _rich_item(r):
    """A workbook from execsim's generator: ~35 formula templates (every aggregate, conditional aggregate, lookup,
    text, date and logical function the library translates, cross-sheet / whole-column / $-absolute references,
    formulas over formulas), so that every translator and every lazily initialised token class is on some
    client's path - what leaks between translations is most likely to live in one of them."""
    from engines import execsim
    spec, meta = execsim.gen_workbook(r, {'wholecol': r.random() < 0.5, 'poison': r.random() < 0.3, 'today': r.random() < 0.3})
    if r.random() < 0.2:
        sh = r.choice(spec['sheets'])
        sh['cells'][a1(6, r.randint(0, 2))] = r.choice(['eval(1)', 'os.system(x)', '__import__(y)'])
    ents = [list(f) for f in meta['formulas']]
    r.shuffle(ents)
    ents = ents[:5]
    ents.append([0, 0, 0])
    ents.append([r.randrange(len(spec['sheets'])), 1, 7])
    return {'kind': 'rich', 'spec': spec, 'entries': ents}


def corpus(corpus_seed, n):
    return [_corpus_item(core.derive(corpus_seed, 'corpus-item', i), i) for i in range(n)]


# ----------------------------------------------------------------------------------------------
# plan generation

def gen_plan(seed, cfg):
    r = core.rng(seed, 'parsersim')
    cseed = cfg.get('corpus_seed', 0)
    cn = cfg.get('corpus_n', 24 if cfg.get('tier', 'quick') == 'quick' else 256)
    swarm = {
        'n_clients': r.choice([1, 2, 2, 3, 3]),
        'mode': r.choice(['seq', 'op', 'line', 'line', 'line']),
        'opcode': r.random() < 0.15,
        'faults': r.choice([0, 0, 0, 1, 1, 2]),
        'read_cap': r.choice([0, 0, 0, 1, 7, 64]),
        'write_cap': r.choice([0, 0, 0, 16, 100, 5000]),
        'rewrites': r.random() < 0.3,
        'reuse_entry_obj': r.random() < 0.4,
        'quanta': r.choice(['mixed', 'mixed', 'fine', 'coarse', 'rare']),
    }
    swarm.update(cfg.get('swarm', {}))
    n_wb = r.choice([2, 2, 3, 4])
    idxs = [r.randrange(cn) for _ in range(n_wb)]
    items = [_corpus_item(core.derive(cseed, 'corpus-item', i_), i_) for i_ in idxs]
    # make title-keyed entries meaningful across workbooks: sometimes wb1 is wb0 with the sheets swapped
    if r.random() < 0.35:
        sw = copy.deepcopy(items[0])
        sw['spec']['sheets'] = list(reversed(sw['spec']['sheets']))
        n = len(sw['spec']['sheets'])
        sw['entries'] = [[n - 1 - e[0], e[1], e[2]] if e[0] < n else e for e in sw['entries']]
        items[1] = sw
    # on some runs (own stream) the workbooks all have the SAME file name, in different directories
    same_name = core.rng(seed, 'parsersim', 'paths').random() < 0.3
    swarm['same_basename'] = same_name
    workbooks = [{'path': ('/simfs/d%d/budget.xlsx' % i) if same_name else ('/simfs/wb%d.xlsx' % i), 'versions': [it['spec']], 'entries': it['entries']}
                 for i, it in enumerate(items)]
    if swarm['rewrites']:
        for w in workbooks:
            if r.random() < 0.6:
                i_ = r.randrange(cn)
                it = _corpus_item(core.derive(cseed, 'corpus-item', i_), i_)
                w['versions'].append(it['spec'])
    clients = []
    outn = 0
    for c in range(swarm['n_clients']):
        ops = []
        cur_wb = None
        n_ops = r.randint(3, 12)
        have_entry = False
        while len(ops) < n_ops:
            k = r.random()
            if cur_wb is None and k < 0.9:
                cur_wb = r.randrange(n_wb)
                ops.append({'op': 'set_path', 'wb': cur_wb})
                continue
            if k < 0.14:
                if r.random() < 0.08:
                    ops.append({'op': 'set_path', 'wb': 'missing'})
                    cur_wb = None
                else:
                    cur_wb = r.randrange(n_wb) if r.random() < 0.7 else cur_wb
                    ops.append({'op': 'set_path', 'wb': cur_wb})
            elif k < 0.36:
                if have_entry and swarm['reuse_entry_obj'] and r.random() < 0.3:
                    ops.append({'op': 'set_entry', 'reuse': True})
                elif have_entry and r.random() < 0.12:
                    ops.append({'op': 'set_entry', 'at': None})
                    have_entry = False
                else:
                    w = workbooks[cur_wb if cur_wb is not None else 0]
                    e = r.choice(w['entries'])
                    titles = [s['title'] for s in w['versions'][0]['sheets']]
                    si = min(e[0], len(titles) - 1)
                    ops.append({'op': 'set_entry', 'at': wbgen.spell(r, si, titles[si], e[1], e[2])})
                    have_entry = True
            elif k < 0.50:
                ops.append({'op': 'safety', 'on': r.random() < 0.5})
            elif k < 0.80:
                ops.append({'op': 'get'})
            elif k < 0.93:
                if r.random() < 0.3 and outn:
                    out = '/simfs/out_c%d_%d.py' % (c, r.randrange(outn))   # a path this client wrote before
                else:
                    out = '/simfs/out_c%d_%d.py' % (c, outn)
                    outn += 1
                ops.append({'op': 'write', 'out': out})
            elif swarm['rewrites']:
                cands = [i for i, w in enumerate(workbooks) if len(w['versions']) > 1]
                if cands:
                    i = r.choice(cands)
                    ops.append({'op': 'rewrite', 'wb': i, 'version': r.randrange(len(workbooks[i]['versions']))})
        ops.append({'op': 'get'})
        clients.append(ops)
    # faults: placed inside an operation that is about to do I/O
    faults = []
    io_ops = [(c, i, op) for c, ops in enumerate(clients) for i, op in enumerate(ops) if op['op'] in ('get', 'write')]
    for _ in range(swarm['faults']):
        if not io_ops:
            break
        c, i, op = r.choice(io_ops)
        if op['op'] == 'write' and r.random() < 0.7:
            kind = r.choice(['write_open_fail', 'write_err', 'write_err', 'close_err'])
        else:
            kind = r.choice(['read_open_fail', 'read_err', 'read_err'])
        f = {'client': c, 'op': i, 'kind': kind}
        if kind.endswith('open_fail'):
            f['errno'] = r.choice(['EACCES', 'EMFILE', 'ENOENT', 'EIO'])
        elif kind == 'write_err':
            f['errno'] = r.choice(['ENOSPC', 'EIO', 'EDQUOT'])
            f['after'] = r.choice([0, 1, 100, 5000, 9000, 20000, 60000])
        elif kind == 'close_err':
            f['errno'] = 'EIO'
        else:
            f['errno'] = 'EIO'
            if r.random() < 0.5:
                f['after'] = r.choice([0, 10, 500, 2000, 5000])
            else:
                # by position in TIME instead of position in the file: the n-th raw read of the workbook during this
                # operation (the zip directory is read first, then one member after the other), so that a transient
                # error can land between two sheets as well as at the very beginning
                f['nth'] = r.choice([1, 2, 3, 4, 5, 6, 8, 10, 12, 15, 20, 30])
        faults.append(f)
    plan = {'engine': NAME, 'seed': seed, 'swarm': swarm, 'workbooks': workbooks, 'clients': clients, 'faults': faults, 'env': core.gen_env(seed),
            'schedule': {'mode': swarm['mode'], 'seed': core.derive(seed, 'schedule'), 'explicit': None, 'opcode': swarm['opcode'],
                         'quanta': swarm['quanta']}}
    return plan


# ----------------------------------------------------------------------------------------------
# the device policy: legal behaviour + injected faults, per client thread

class _Policy(simfs.Policy):
    def __init__(self, plan):
        self.read_cap_n = plan['swarm'].get('read_cap', 0)
        self.write_cap_n = plan['swarm'].get('write_cap', 0)
        self.by_thread = {}        # thread ident -> client state
        self.fired = {}

    def state(self):
        return self.by_thread.get(threading.get_ident())

    def _fire(self, st, f):
        f['_fired'] = True
        st['fired'].append(f['kind'])
        self.fired[f['kind']] = self.fired.get(f['kind'], 0) + 1

    def on_open(self, path, flags):
        st = self.state()
        if not st:
            return
        for f in st['armed']:
            if f.get('_fired'):
                continue
            if f['kind'] == 'read_open_fail' and flags['read'] and not (flags['write'] or flags['append']) and path.endswith('.xlsx'):
                self._fire(st, f)
                raise OSError(getattr(errno, f['errno']), os.strerror(getattr(errno, f['errno'])) + ' (injected)', path)
            if f['kind'] == 'write_open_fail' and (flags['write'] or flags['append']):
                self._fire(st, f)
                raise OSError(getattr(errno, f['errno']), os.strerror(getattr(errno, f['errno'])) + ' (injected)', path)

    def on_opened(self, path, flags, version):
        st = self.state()
        if st is not None and flags['read'] and not (flags['write'] or flags['append']):
            st['opened'].append([path, version])

    def read_cap(self, path, pos, want):
        st = self.state()
        if st:
            for f in st['armed']:
                if f['kind'] == 'read_err' and not f.get('_fired') and path.endswith('.xlsx'):
                    if 'nth' in f:
                        f['_seen'] = f.get('_seen', 0) + 1
                        hit = f['_seen'] >= f['nth']
                    else:
                        hit = pos + want > f['after']
                    if hit:
                        self._fire(st, f)
                        raise OSError(getattr(errno, f['errno']), 'Input/output error (injected)', path)
        return self.read_cap_n or want

    def write_cap(self, path, written, want):
        st = self.state()
        if st:
            for f in st['armed']:
                if f['kind'] == 'write_err' and not f.get('_fired'):
                    room = f['after'] - written
                    if room <= 0:
                        self._fire(st, f)
                        raise OSError(getattr(errno, f['errno']), os.strerror(getattr(errno, f['errno'])) + ' (injected)', path)
                    want = min(want, room)
        return min(want, self.write_cap_n) if self.write_cap_n else want

    def on_close(self, path, flags):
        st = self.state()
        if st and (flags['write'] or flags['append']):
            for f in st['armed']:
                if f['kind'] == 'close_err' and not f.get('_fired'):
                    self._fire(st, f)
                    raise OSError(errno.EIO, 'Input/output error at close (injected)', path)


# ----------------------------------------------------------------------------------------------
# outcomes

def _sha(text):
    return hashlib.sha256(text.encode('utf-8')).hexdigest()


def _outcome(fn):
    """Outcome class of a facade call that returns text (or None)."""
    from excel2pycl import E2PyclSafetyException, E2PyclParserException
    try:
        t = fn()
    except E2PyclSafetyException as e:
        return ['safety', core.canon(e.suspicious_cells)]
    except E2PyclParserException as e:
        return ['parser_exc', '']
    except OSError as e:
        return ['oserror', type(e).__name__, e.errno]
    except Exception as e:
        return ['exc', type(e).__name__]
    if t is None:
        return ['none']
    if not isinstance(t, str):
        return ['nontext', type(t).__name__]
    return ['text', _sha(t), len(t)]


def _mk_cell(at):
    from excel2pycl import Cell
    return Cell(at[0], at[1], at[2])


# ----------------------------------------------------------------------------------------------
# execution

def run(req, ctx):
    import simclock
    plan = req.get('plan') or gen_plan(req['seed'], req.get('cfg', {}))
    simclock.set_tz('UTC0')
    simclock.set_step_ns(0)
    simclock.set_ns(1_718_000_000 * 10**9)
    env_fired = core.apply_env(plan.get('env'))      # the foreign reference process keeps the defaults
    res = execute(plan, ctx, want_trace=bool(req.get('plan')) or req.get('want_trace'))
    for k_, v_ in env_fired.items():
        res.setdefault('probes', {})[k_] = v_
    if req.get('want_plan') or res['mismatches']:
        res['plan'] = plan
    if not req.get('want_log'):
        res.pop('log', None)
    return res


def execute(plan, ctx, want_trace=False):
    from excel2pycl import Parser
    probes = {}
    sets = {'state_op': set(), 'switch_pair': set()}

    def probe(name, n=1):
        probes[name] = probes.get(name, 0) + n

    pol = _Policy(plan)
    disk = simfs.reset(pol)
    n_clients = len(plan['clients'])
    # materialise every version of every workbook once (bytes never enter the log)
    data = [[wbgen.build_bytes(v) for v in w['versions']] for w in plan['workbooks']]
    cur_version = [0] * len(plan['workbooks'])       # index into versions
    put_count = {}                                   # path -> number of puts; maps disk version counter -> versions index
    vmap = {}                                        # (path, disk version counter) -> versions index
    for i, w in enumerate(plan['workbooks']):
        disk.put(w['path'], data[i][0])
        vmap[(w['path'], disk.versions[w['path']])] = 0
    sch_cfg = plan['schedule']
    # 'rare': a handful of pre-emptions per translation at uniformly random depths, long undisturbed runs in
    # between (PCT-style) - finds races that need ONE switch at the right place and then a long stretch of the
    # other client, which short quanta almost never produce
    quanta = {'mixed': None, 'fine': [1, 1, 1, 2, 3], 'coarse': [50, 200, 1000],
              'rare': [300, 1000, 3000, 10000, 30000]}[sch_cfg.get('quanta', 'mixed')]
    S = sched.Scheduler(n_clients, sch_cfg['mode'], seed=sch_cfg['seed'], explicit=sch_cfg.get('explicit'),
                        lib_prefix=os.path.join(core.REPO, 'excel2pycl') + os.sep,
                        opcode_files=OPCODE_FILES if sch_cfg.get('opcode') else (), quanta=quanta)
    faults = copy.deepcopy(plan['faults'])
    records = [[] for _ in range(n_clients)]
    torn = [0, 0]

    def client(c):
        def body():
            st = {'armed': [], 'opened': [], 'fired': []}
            pol.by_thread[threading.get_ident()] = st
            parser = Parser()
            entry_obj = None
            for i, op in enumerate(plan['clients'][c]):
                S.op_boundary(c)
                st['armed'] = [f for f in faults if f['client'] == c and f['op'] == i]
                st['opened'] = []
                st['fired'] = []
                rec = {'c': c, 'i': i, 'op': op['op']}
                kind = op['op']
                if kind == 'set_path':
                    p = '/simfs/missing.xlsx' if op['wb'] == 'missing' else plan['workbooks'][op['wb']]['path']
                    rec['out'] = _outcome(lambda: (parser.set_excel_file_path(p), None)[1])
                elif kind == 'set_entry':
                    if op.get('reuse') and entry_obj is not None:
                        obj = entry_obj
                    elif op.get('at') is None:
                        obj = None
                    else:
                        obj = _mk_cell(op['at'])
                    entry_obj = obj if obj is not None else entry_obj
                    rec['out'] = _outcome(lambda: (parser.set_entrypoint_cell(obj), None)[1])
                elif kind == 'safety':
                    rec['out'] = _outcome(lambda: ((parser.enable_safety_check() if op['on'] else parser.disable_safety_check()), None)[1])
                elif kind == 'get':
                    rec['out'] = _outcome(parser.get_translation)
                elif kind == 'write':
                    rec['out'] = _outcome(lambda: (parser.write_translation(op['out']), None)[1])
                    b = disk.get(op['out'])
                    rec['file'] = None if b is None else [hashlib.sha256(b).hexdigest(), len(b)]
                    if b and rec['out'][0] == 'oserror' and any(k in ('write_err', 'close_err') for k in st['fired']):
                        # informational only (DESIGN section 5): write_translation writes the final path in place, so an
                        # interrupted write leaves a prefix; is that prefix still a loadable module defining fewer cells?
                        # No property promises atomic replacement, so this is counted, never reported.
                        torn[0] += 1
                        try:
                            compile(b.decode('utf-8', 'replace'), '<torn>', 'exec')
                            torn[1] += 1
                        except SyntaxError:
                            pass
                elif kind == 'rewrite':
                    w = plan['workbooks'][op['wb']]
                    disk.put(w['path'], data[op['wb']][op['version']])
                    vmap[(w['path'], disk.versions[w['path']])] = op['version']
                    cur_version[op['wb']] = op['version']
                    rec['out'] = ['none']
                rec['opened'] = [[p, vmap.get((p, v))] for p, v in st['opened']]
                rec['fired'] = list(st['fired'])
                rec['versions_now'] = list(cur_version)
                records[c].append(rec)
                st['armed'] = []
            return len(records[c])
        return body

    results = S.run([client(c) for c in range(n_clients)])
    harness_fail = [r for r in results if r is None or r[0] != 'ok']
    if harness_fail:
        raise core.HarnessError('client thread failed: %r' % (harness_fail[0],))
    if S.aborted:
        # the run hit the scheduler's step cap (opcode-level tracing of long histories): from that point on it was not
        # scheduled as planned, so it is discarded - counted, never judged
        return {'log': {'aborted': True}, 'probes': {'run_discarded_at_step_cap': 1}, 'faults': {}, 'steps': S.total_events,
                'mismatches': [], 'nontrivial': False, 'sig': 'aborted', 'sets': {}, 'digest': core.digest(['aborted', plan['seed']])}

    # ---- reach measures
    for (tid, ev, nxt), loc in zip(S.trace, S.locs):
        if sched.in_lazy_window(loc):
            probe('switch_inside_lazy_init_window')
    if S.overlap_tokens:
        probe('switch_while_two_clients_inside_token_parser', S.overlap_tokens)
    for a, b in zip(S.locs, S.locs[1:]):
        sets['switch_pair'].add('%s:%s:%d>%s:%s:%d' % (a + b))
    n_switches = sum(1 for t in S.trace if t[1] != 'end' and t[0] != 'start')

    # ---- oracle (post hoc, over the recorded history)
    mism, feats = _check(plan, records, ctx, probe, sets, disk)
    if torn[0]:
        probe('torn_output_file_left_by_failed_write', torn[0])
    if torn[1]:
        probe('torn_output_file_is_still_a_loadable_module', torn[1])
    if n_switches and S.mode == 'line':
        probe('line_level_context_switches', n_switches)
    if any(sched.in_lazy_window(l) for l in S.locs):
        feats.add('lazy-window-switch')
    if S.overlap_tokens:
        feats.add('token-parser-overlap')
    log = {'records': records, 'trace_digest': core.digest(S.trace)}
    res = {'log': log, 'probes': probes, 'faults': dict(pol.fired), 'steps': S.total_events or sum(len(c) for c in plan['clients']),
           'mismatches': mism, 'nontrivial': bool(feats),
           'sig': core.digest([plan['workbooks'], plan['clients'], plan['faults'], S.trace]),
           'sets': {k: sorted(v) for k, v in sets.items()}, 'digest': core.digest(log)}
    if want_trace:
        res['trace'] = S.trace
    return res


def _ref(ctx, spec, entry, safety, path_state='ok'):
    return ctx['ref']({'kind': 'parser', 'spec': spec, 'entry': entry, 'safety': safety, 'path_state': path_state})


def _check(plan, records, ctx, probe, sets, disk):
    mism = []
    feats = set()
    for c, recs in enumerate(records):
        # the model of this client's facade: settings in force + what its parser may legitimately know
        path_wb = 'unset'            # 'unset' | 'missing' | workbook index
        entry = None                 # spelling in force (original spelling of a re-passed object)
        last_entry_spelling = None
        safety = True
        read_versions = set()        # versions of the current workbook this parser has opened since the path was set
        cached = False
        path_dirty = True
        last_failed = False
        for rec, op in zip(recs, plan['clients'][c]):
            kind = op['op']
            state = (int(path_dirty), int(cached), int(entry is not None), int(safety), int(last_failed))
            sets['state_op'].add('%s|%s' % (state, kind))
            if kind == 'set_path':
                path_wb = op['wb']
                read_versions = set()
                path_dirty = True
                if cached:
                    probe('setter_called_with_cached_translation')
                    feats.add('setter-on-cached')
                _expect_none(mism, rec)
                continue
            if kind == 'set_entry':
                if op.get('reuse') and last_entry_spelling is not None:
                    entry = last_entry_spelling
                    probe('entry_cell_object_passed_again')
                elif op.get('at') is None:
                    entry = None
                else:
                    entry = op['at']
                    last_entry_spelling = op['at']
                if cached:
                    probe('setter_called_with_cached_translation')
                    feats.add('setter-on-cached')
                _expect_none(mism, rec)
                continue
            if kind == 'safety':
                if cached and safety != op['on']:
                    probe('setter_called_with_cached_translation')
                    feats.add('setter-on-cached')
                safety = op['on']
                _expect_none(mism, rec)
                continue
            if kind == 'rewrite':
                probe('workbook_replaced_on_disk')
                feats.add('rewrite')
                continue
            # get / write
            if last_failed:
                probe('facade_op_after_failed_op')
            opened = [v for p, v in rec['opened'] if path_wb not in ('unset', 'missing') and p == plan['workbooks'][path_wb]['path'] and v is not None]
            read_fault = any(k in ('read_open_fail', 'read_err') for k in rec['fired'])
            write_fault = any(k in ('write_open_fail', 'write_err', 'close_err') for k in rec['fired'])
            if rec['fired']:
                feats.add('fault')
            out = rec['out']
            if path_wb in ('unset', 'missing'):
                exp = [_ref(ctx, None, entry, safety, path_wb)]
            else:
                w = plan['workbooks'][path_wb]
                if opened:
                    cands = sorted(set(opened))
                elif read_versions:
                    cands = sorted(read_versions)
                else:
                    cands = [rec['versions_now'][path_wb]]
                exp = [_ref(ctx, w['versions'][v], entry, safety) for v in cands]
                if opened and not read_fault:
                    read_versions = set(opened)
            exp_out = [e['out'] for e in exp]
            ok = True
            key = None
            if kind == 'get':
                if read_fault:
                    # the workbook was unreadable at that moment: anything may be raised, the reference
                    # text may still be returned, a DIFFERENT text may never be returned
                    if out[0] == 'text' and out not in exp_out:
                        ok, key = False, 'different-text-after-read-fault'
                else:
                    if out not in exp_out:
                        ok = False
            else:  # write
                if write_fault:
                    if out[0] != 'oserror':
                        ok, key = False, 'write-fault-not-reported'
                elif read_fault:
                    if out == ['none'] and not _file_matches(rec, exp_out):
                        ok, key = False, 'different-text-after-read-fault'
                else:
                    want = [['none'] if e[0] == 'text' else e for e in exp_out]
                    if out not in want:
                        ok = False
                    elif out == ['none'] and not _file_matches(rec, exp_out):
                        ok = False
                        key = _classify(plan, ctx, c, rec, op, out, exp_out, path_wb, entry, safety, recs, last_failed)
                        if key in ('different-text', 'different-outcome'):
                            key = 'written-file-differs-from-reference-text'
                    if out == ['none']:
                        probe('write_checked_against_reference')
            if not ok:
                if key is None:
                    key = _classify(plan, ctx, c, rec, op, out, exp_out, path_wb, entry, safety, recs, last_failed)
                mism.append({'key': key, 'client': c, 'op': rec['i'], 'kind': kind, 'observed': out if kind == 'get' else [out, rec.get('file')],
                             'expected': exp_out, 'settings': {'path': path_wb, 'entry': entry, 'safety': safety},
                             'opened_versions': opened, 'fired': rec['fired']})
            failed_now = out[0] in ('safety', 'parser_exc', 'oserror', 'exc')
            if out[0] == 'text' or (kind == 'write' and out == ['none']):
                cached = True
                path_dirty = False
            last_failed = failed_now
    # one mismatch per (key, client) is enough
    seen = set()
    uniq = []
    for m in mism:
        if (m['key']) in seen:
            continue
        seen.add(m['key'])
        uniq.append(m)
    return uniq, feats


def _expect_none(mism, rec):
    if rec['out'] != ['none']:
        mism.append({'key': 'setter-raised', 'client': rec['c'], 'op': rec['i'], 'kind': rec['op'], 'observed': rec['out'], 'expected': [['none']]})


def _file_matches(rec, exp_out):
    f = rec.get('file')
    if f is None:
        return False
    # _sha() hashes the UTF-8 encoding of the text, i.e. exactly the bytes the file must hold
    return any(e[0] == 'text' and e[1] == f[0] and e[2] <= f[1] for e in exp_out)


def _classify(plan, ctx, c, rec, op, out, exp_out, path_wb, entry, safety, recs, last_failed):
    """Which narrower story explains the observation?"""
    if path_wb not in ('unset', 'missing'):
        w = plan['workbooks'][path_wb]
        allv = range(len(w['versions']))
        # stale with respect to a setter: the text of EARLIER settings of this client
        hist_entries, hist_safety, hist_paths = [None], [True], []
        e_now, last_sp = None, None
        for r2, o2 in zip(recs, plan['clients'][c]):
            if r2['i'] >= rec['i']:
                break
            if o2['op'] == 'set_entry':
                if o2.get('reuse'):
                    e_now = last_sp
                elif o2.get('at') is None:
                    e_now = None
                else:
                    e_now = o2['at']
                    last_sp = o2['at']
                hist_entries.append(e_now)
            if o2['op'] == 'safety':
                hist_safety.append(o2['on'])
            if o2['op'] == 'set_path' and o2['wb'] != 'missing':
                hist_paths.append(o2['wb'])

        def same(e):
            return e['out'] == out or (op['op'] == 'write' and out == ['none'] and e['out'][0] == 'text' and rec.get('file') and e['out'][1] == rec['file'][0])

        for v in allv:
            for e_old in hist_entries:
                if core.canon(e_old) != core.canon(entry) and same(_ref(ctx, w['versions'][v], e_old, safety)):
                    return 'stale-after-set-entrypoint-cell'
        for v in allv:
            if same(_ref(ctx, w['versions'][v], entry, not safety)):
                return 'stale-after-safety-toggle'
        for pw in hist_paths:
            if pw != path_wb:
                for v in range(len(plan['workbooks'][pw]['versions'])):
                    if same(_ref(ctx, plan['workbooks'][pw]['versions'][v], entry, safety)):
                        return 'stale-after-set-path'
        # the entry cell object was rewritten by an earlier translation (title->index latched, COLUMN shift)
        if entry is not None:
            titles = [s['title'] for s in w['versions'][0]['sheets']]
            for si in range(4):
                for dc in (-3, -2, -1, 0, 1, 2, 3):
                    alt = _alt_entry(entry, si, dc)
                    if alt is not None and core.canon(alt) != core.canon(entry):
                        for v in allv:
                            try:
                                if same(_ref(ctx, w['versions'][v], alt, safety)):
                                    return 'entry-cell-object-rewritten-by-earlier-translation'
                            except Exception:
                                pass
    if last_failed:
        return 'wrong-after-failed-operation'
    if out[0] == 'exc':
        return 'foreign-exception:' + out[1]
    if out[0] == 'text' and any(e[0] == 'text' for e in exp_out):
        return 'different-text'
    return 'different-outcome'


def _alt_entry(entry, sheet_index, dcol):
    """The same entry as the library would leave it after latching: numeric sheet index, shifted column."""
    t, cc, rr = entry
    col = wbgen.col_index(cc) if isinstance(cc, str) else cc
    row = int(rr) - 1 if isinstance(rr, str) else rr
    if col + dcol < 0:
        return None
    return [sheet_index, col + dcol, row]


# ----------------------------------------------------------------------------------------------
# reference server: a brand-new Parser configured once, in a pristine foreign process

def ref_init():
    import simclock
    try:
        simclock.set_tz('XYZ-9')
        simclock.set_ns(946_598_400 * 10**9)      # 1999-12-31: another simulated date than the lanes use
    except Exception:
        pass
    try:
        os.chdir('/')
    except Exception:
        pass


def ref_handle(req):
    from excel2pycl import Parser, E2PyclSafetyException, E2PyclParserException
    simfs.reset()
    p = Parser()
    if req['path_state'] == 'ok':
        simfs.DISK.put('/simfs/ref.xlsx', wbgen.build_bytes(req['spec']))
        p.set_excel_file_path('/simfs/ref.xlsx')
    elif req['path_state'] == 'missing':
        p.set_excel_file_path('/simfs/missing.xlsx')
    if req['entry'] is not None:
        p.set_entrypoint_cell(_mk_cell(req['entry']))
    if req['safety']:
        p.enable_safety_check()
    else:
        p.disable_safety_check()
    try:
        t = p.get_translation()
    except E2PyclSafetyException as e:
        return {'out': ['safety', core.canon(e.suspicious_cells)]}
    except E2PyclParserException:
        return {'out': ['parser_exc', '']}
    except OSError as e:
        return {'out': ['oserror', type(e).__name__, e.errno]}
    except Exception as e:
        return {'out': ['exc', type(e).__name__]}
    return {'out': ['text', _sha(t), len(t)]}


# ----------------------------------------------------------------------------------------------

def describe(plan, m):
    return '%s: client %s op %s (%s) settings %s: observed %s, reference %s%s' % (
        m['key'], m['client'], m['op'], m['kind'], m.get('settings'), _short(m['observed']), _short(m['expected']),
        (' faults fired %s' % m['fired']) if m.get('fired') else '')


def _short(o):
    s = core.canon(o)
    return s if len(s) < 200 else s[:200] + '...'


def shrink(plan, last=None):
    """Smaller plans, most aggressive first: sequential schedule -> fewer clients -> ddmin each
    client's operations -> fewer faults -> plain device -> explicit switch list -> fewer cells."""
    def clone():
        return copy.deepcopy(plan)

    sch = plan['schedule']
    if sch['mode'] != 'seq' or sch.get('explicit'):
        p = clone()
        p['schedule'] = {'mode': 'seq', 'seed': sch['seed'], 'explicit': None, 'opcode': False, 'quanta': 'mixed'}
        yield p
        if sch['mode'] == 'line' and not sch.get('explicit'):
            p = clone()
            p['schedule'] = dict(sch, mode='op', opcode=False)
            yield p
    n = len(plan['clients'])
    if n > 1 and not sch.get('explicit'):
        for c in range(n):
            p = clone()
            del p['clients'][c]
            p['faults'] = [dict(f, client=f['client'] - (1 if f['client'] > c else 0)) for f in p['faults'] if f['client'] != c]
            yield p
    if not sch.get('explicit'):
        for c in range(n):
            ops = plan['clients'][c]
            m = len(ops)
            chunk = max(1, m // 2)
            while chunk >= 1:
                for i in range(0, m, chunk):
                    keep = ops[:i] + ops[i + chunk:]
                    if not keep:
                        continue
                    p = clone()
                    p['clients'][c] = copy.deepcopy(keep)
                    # re-index this client's faults
                    nf = []
                    for f in p['faults']:
                        if f['client'] != c:
                            nf.append(f)
                        elif f['op'] < i:
                            nf.append(f)
                        elif f['op'] >= i + chunk:
                            nf.append(dict(f, op=f['op'] - chunk))
                    p['faults'] = nf
                    yield p
                chunk //= 2
    for i in range(len(plan['faults'])):
        p = clone()
        del p['faults'][i]
        yield p
    if plan.get('env'):
        p = clone()
        p['env'] = {}
        yield p
    if plan['swarm'].get('read_cap') or plan['swarm'].get('write_cap'):
        p = clone()
        p['swarm']['read_cap'] = 0
        p['swarm']['write_cap'] = 0
        yield p
    # schedule: from PRNG stream to the explicit switch list that was actually taken, then ddmin it
    if sch['mode'] in ('line', 'op') and not sch.get('explicit') and last is not None and last.get('trace'):
        p = clone()
        p['schedule'] = dict(sch, explicit=last['trace'])
        yield p
    if sch.get('explicit'):
        ex = sch['explicit']
        m = len(ex)
        chunk = max(1, m // 2)
        while chunk >= 1:
            for i in range(0, m, chunk):
                keep = ex[:i] + ex[i + chunk:]
                p = clone()
                p['schedule'] = dict(sch, explicit=keep)
                yield p
            chunk //= 2
    # workbook cells
    for wi, w in enumerate(plan['workbooks']):
        if len(w['versions']) > 1:
            used = set(op['version'] for ops in plan['clients'] for op in ops if op['op'] == 'rewrite' and op['wb'] == wi)
            if not used - {0}:
                p = clone()
                p['workbooks'][wi]['versions'] = w['versions'][:1]
                for ops in p['clients']:
                    ops[:] = [op for op in ops if not (op['op'] == 'rewrite' and op['wb'] == wi)]
                yield p
        for vi, v in enumerate(w['versions']):
            for si, sh in enumerate(v['sheets']):
                for k in list(sh['cells']):
                    if sum(len(s['cells']) for s in v['sheets']) <= 1:
                        break
                    p = clone()
                    del p['workbooks'][wi]['versions'][vi]['sheets'][si]['cells'][k]
                    yield p


def matches_finding(plan, mismatch, finding, rerun=None):
    return False
