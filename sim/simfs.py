"""File-system seam.  builtins.open / io.open are replaced by a path-prefix filter: paths under
/simfs/ are served by an in-memory disk, everything else goes to the real open().  A sim file is
a REAL io.TextIOWrapper / io.BufferedWriter / io.BufferedReader stacked on a RawIOBase stub, so
buffering, encoding, newline handling and short-write retry are CPython's own code; only the
device is simulated, and it consults a per-run policy for legal-but-unusual behaviour (capped
reads, short writes) and for injected faults."""
import builtins
import errno
import io
import os

PREFIX = '/simfs/'
_real_open = builtins.open
_real_io_open = io.open


class Policy:
    """Default device behaviour: unlimited, no faults.  Engines subclass this per run."""

    def on_open(self, path, flags):
        """May raise OSError.  flags: dict(read, write, append, create, excl, trunc)."""

    def read_cap(self, path, pos, want):
        """Return how many bytes (>=1) this raw read may deliver, or raise OSError."""
        return want

    def write_cap(self, path, written_so_far, want):
        """Return how many bytes (>=1) this raw write accepts, or raise OSError."""
        return want

    def on_close(self, path, flags):
        """May raise OSError (e.g. EIO at close).  Called once per raw close."""

    def on_opened(self, path, flags, version):
        """Called after a successful open; version = replacement counter of the file."""


class Disk:
    def __init__(self):
        self.files = {}      # path -> bytearray (live content)
        self.versions = {}   # path -> number of atomic replacements so far
        self.policy = Policy()
        self.real_hook = None  # (path prefix, wrap(fileobj, path, mode)) for REAL files, e.g. timestamping at close

    def put(self, path, data: bytes):
        """Atomic (rename-style) replacement: readers that already opened keep their version."""
        self.files[path] = bytearray(data)
        self.versions[path] = self.versions.get(path, -1) + 1

    def get(self, path):
        b = self.files.get(path)
        return None if b is None else bytes(b)

    def remove(self, path):
        self.files.pop(path, None)


DISK = Disk()


class _Raw(io.RawIOBase):
    def __init__(self, disk, path, flags):
        super().__init__()
        self._disk, self._path, self._flags = disk, path, flags
        self._pos = 0
        self._written = 0
        if flags['write'] or flags['append']:
            if flags['trunc'] or path not in disk.files:
                disk.files[path] = bytearray()
                disk.versions.setdefault(path, 0)
            self._buf = disk.files[path]          # live: partial writes are visible on the disk
        else:
            self._buf = bytes(disk.files[path])   # snapshot: the version that was opened
        if flags['append']:
            self._pos = len(self._buf)
        self.name = path
        self.mode = flags['mode']

    def readable(self):
        return self._flags['read']

    def writable(self):
        return self._flags['write'] or self._flags['append']

    def seekable(self):
        return True

    def seek(self, off, whence=0):
        n = len(self._buf)
        self._pos = off if whence == 0 else self._pos + off if whence == 1 else n + off
        if self._pos < 0:
            self._pos = 0
        return self._pos

    def tell(self):
        return self._pos

    def truncate(self, size=None):
        if size is None:
            size = self._pos
        del self._buf[size:]
        return size

    def readinto(self, b):
        if not self._flags['read']:
            raise io.UnsupportedOperation('not readable')
        want = min(len(b), max(0, len(self._buf) - self._pos))
        if want == 0:
            return 0
        n = self._disk.policy.read_cap(self._path, self._pos, want)
        n = max(1, min(want, n))
        b[:n] = self._buf[self._pos:self._pos + n]
        self._pos += n
        return n

    def write(self, b):
        if not self.writable():
            raise io.UnsupportedOperation('not writable')
        data = bytes(b)
        if not data:
            return 0
        n = self._disk.policy.write_cap(self._path, self._written, len(data))
        n = max(1, min(len(data), n))
        if self._flags['append']:
            self._pos = len(self._buf)
        if self._pos > len(self._buf):
            self._buf.extend(b'\0' * (self._pos - len(self._buf)))
        self._buf[self._pos:self._pos + n] = data[:n]
        self._pos += n
        self._written += n
        return n

    def close(self):
        if self.closed:
            return
        try:
            self._disk.policy.on_close(self._path, self._flags)
        finally:
            super().close()


def _parse_mode(mode: str):
    m = set(mode)
    if not m <= set('rwxabt+U') or len(m & set('rwxa')) != 1:
        raise ValueError('invalid mode: %r' % mode)
    plus = '+' in m
    return {
        'read': 'r' in m or plus,
        'write': ('w' in m or 'x' in m or (plus and 'r' in m)),
        'append': 'a' in m,
        'create': bool(m & set('wxa')),
        'excl': 'x' in m,
        'trunc': 'w' in m,
        'binary': 'b' in m,
        'mode': mode,
    }


def sim_open(file, mode='r', buffering=-1, encoding=None, errors=None, newline=None, closefd=True, opener=None):
    path = None
    if isinstance(file, str):
        path = file
    elif isinstance(file, (bytes, os.PathLike)):
        try:
            path = os.fsdecode(os.fspath(file))
        except Exception:
            path = None
    if path is None or not path.startswith(PREFIX):
        f = _real_open(file, mode, buffering, encoding, errors, newline, closefd, opener)
        hook = DISK.real_hook
        if hook is not None and path is not None:
            # a relative spelling names a file under the hooked directory just as well (resolved against
            # the working directory at open time, like the kernel does)
            full = path if os.path.isabs(path) else os.path.abspath(path)
            if full.startswith(hook[0]):
                return hook[1](f, full, mode)
        return f
    flags = _parse_mode(mode)
    disk = DISK
    disk.policy.on_open(path, flags)
    exists = path in disk.files
    if flags['excl'] and exists:
        raise FileExistsError(errno.EEXIST, 'File exists', path)
    if not exists and not flags['create']:
        raise FileNotFoundError(errno.ENOENT, 'No such file or directory', path)
    raw = _Raw(disk, path, flags)
    disk.policy.on_opened(path, flags, disk.versions.get(path, 0))
    if buffering == 0:
        if not flags['binary']:
            raise ValueError("can't have unbuffered text I/O")
        return raw
    bufsize = buffering if buffering and buffering > 1 else io.DEFAULT_BUFFER_SIZE
    if flags['read'] and raw.writable():
        buf = io.BufferedRandom(raw, bufsize)
    elif raw.writable():
        buf = io.BufferedWriter(raw, bufsize)
    else:
        buf = io.BufferedReader(raw, bufsize)
    if flags['binary']:
        return buf
    if encoding is None:
        # what the real open() would pick in this process' locale (matters for a
        # write_translation that forgot encoding=)
        encoding = io.text_encoding(None) if hasattr(io, 'text_encoding') else None
        if encoding == 'locale' or encoding is None:
            import locale
            encoding = locale.getencoding() if hasattr(locale, 'getencoding') else locale.getpreferredencoding(False)
    text = io.TextIOWrapper(buf, encoding=encoding, errors=errors, newline=newline, line_buffering=(buffering == 1))
    text.mode = mode
    return text


_installed = False


def install():
    global _installed
    if not _installed:
        builtins.open = sim_open
        io.open = sim_open
        _installed = True


def reset(policy=None):
    DISK.files.clear()
    DISK.versions.clear()
    DISK.policy = policy or Policy()
    DISK.real_hook = None
    return DISK


class StampOnClose:
    """Proxy around a real file object: when a file opened for writing is closed, play the file
    system's timestamping under the SIMULATED clock (os.utime with the given granularity)."""

    def __init__(self, f, path, mode, stamp):
        object.__setattr__(self, '_f', f)
        object.__setattr__(self, '_path', path)
        object.__setattr__(self, '_writing', any(c in mode for c in 'wax+'))
        object.__setattr__(self, '_stamp', stamp)

    def __getattr__(self, name):
        return getattr(self._f, name)

    def __setattr__(self, name, value):
        setattr(self._f, name, value)

    def __iter__(self):
        return iter(self._f)

    def __enter__(self):
        self._f.__enter__()
        return self

    def __exit__(self, *exc):
        self.close()
        return False

    def close(self):
        was_open = not self._f.closed
        try:
            self._f.close()
        finally:
            if was_open and self._writing:
                self._stamp(self._path)
