"""Orchestrator side: 16 logical lanes (fixed hash seed each), at most `workers` of them busy at
once.  Run i always executes in lane i mod 16, so the mapping run -> interpreter configuration
does not depend on how many cores or workers are used."""
import json
import os
import queue
import subprocess
import sys
import threading
import time

import core

HERE = os.path.dirname(os.path.abspath(__file__))
LIB = os.path.join(core.VERIF_DIR, 'build', 'libsimclock.so')
C_LOCALE_LANES = (3, 7, 11, 15)


def ensure_shim():
    src = os.path.join(HERE, 'simclock.c')
    if not os.path.exists(LIB) or os.path.getmtime(LIB) < os.path.getmtime(src):
        os.makedirs(os.path.dirname(LIB), exist_ok=True)
        tmp = LIB + '.%d.tmp' % os.getpid()
        subprocess.check_call(['gcc', '-shared', '-fPIC', '-O2', src, '-o', tmp, '-ldl'])
        os.replace(tmp, LIB)
    return LIB


def lane_env(verif_seed, lane, hash_seed=None, c_locale=None):
    env = {k: v for k, v in os.environ.items()
           if k not in ('PYTHONHASHSEED', 'LC_ALL', 'LANG', 'PYTHONUTF8', 'PYTHONCOERCECLOCALE', 'TZ', 'LD_PRELOAD')}
    env['PYTHONHASHSEED'] = str(core.lane_hash_seed(verif_seed, lane) if hash_seed is None else hash_seed)
    env['LD_PRELOAD'] = LIB
    env['PYTHONDONTWRITEBYTECODE'] = '1'
    env['TZ'] = 'UTC0'
    env['VERIF_REPO'] = core.REPO
    if c_locale is None:
        c_locale = lane in C_LOCALE_LANES
    if c_locale:
        env['LC_ALL'] = 'C'
        env['PYTHONUTF8'] = '0'
        env['PYTHONCOERCECLOCALE'] = '0'
    else:
        env['LC_ALL'] = 'C.UTF-8'
    return env


class Lane:
    def __init__(self, engine, verif_seed, lane, hash_seed=None, c_locale=None):
        self.engine, self.lane = engine, lane
        self.env = lane_env(verif_seed, lane, hash_seed, c_locale)
        self.hash_seed = int(self.env['PYTHONHASHSEED'])
        self.proc = None
        self.lock = threading.Lock()

    def start(self):
        self.proc = subprocess.Popen([sys.executable, os.path.join(HERE, 'lane_main.py'), self.engine],
                                     stdin=subprocess.PIPE, stdout=subprocess.PIPE, env=self.env, cwd=HERE)

    def call(self, req):
        with self.lock:
            if self.proc is None or self.proc.poll() is not None:
                self.start()
            try:
                self.proc.stdin.write((json.dumps(req) + '\n').encode())
                self.proc.stdin.flush()
                line = self.proc.stdout.readline()
            except (BrokenPipeError, OSError) as e:
                line = b''
            if not line:
                rc = self.proc.poll()
                self.proc = None
                return {'harness_error': 'lane %d died (rc=%r)' % (self.lane, rc), 'id': req.get('id')}
            return json.loads(line)

    def stop(self):
        p, self.proc = self.proc, None
        if p is not None:
            try:
                p.stdin.write(b'{"cmd":"quit"}\n')
                p.stdin.flush()
                p.stdin.close()
                p.wait(timeout=10)
            except Exception:
                try:
                    p.kill()
                    p.wait(timeout=5)
                except Exception:
                    pass


class LanePool:
    def __init__(self, engine, verif_seed, workers=None, hash_salt=0):
        self.engine, self.verif_seed = engine, verif_seed
        self.workers = workers or min(core.N_LANES, os.cpu_count() or 4)
        # hash_salt != 0 gives every lane ANOTHER hash seed (determinism self-test only)
        self.lanes = [Lane(engine, verif_seed, i,
                           hash_seed=None if not hash_salt else core.lane_hash_seed(verif_seed + 7919 * hash_salt, (i + 5) % core.N_LANES) + 1)
                      for i in range(core.N_LANES)]
        self.sem = threading.Semaphore(self.workers)

    def run_batch(self, jobs, deadline=None, on_result=None):
        """jobs: list of dict(index=..., req=...).  Returns list of (job, result) in job order.
        Jobs not started before `deadline` (time.monotonic()) are skipped (result None)."""
        per_lane = [[] for _ in self.lanes]
        for j in jobs:
            per_lane[j['index'] % core.N_LANES].append(j)
        results = {}
        rlock = threading.Lock()

        def work(lane, items):
            for j in items:
                if deadline is not None and time.monotonic() > deadline:
                    with rlock:
                        results[j['index']] = None
                    continue
                with self.sem:
                    res = lane.call(j['req'])
                with rlock:
                    results[j['index']] = res
                    if on_result:
                        on_result(j, res)

        threads = [threading.Thread(target=work, args=(self.lanes[i], per_lane[i])) for i in range(len(self.lanes)) if per_lane[i]]
        for t in threads:
            t.start()
        for t in threads:
            t.join()
        return [(j, results.get(j['index'])) for j in jobs]

    def stop(self):
        for l in self.lanes:
            l.stop()


def fresh_lane_call(engine, verif_seed, lane_no, req, hash_seed=None, c_locale=None):
    """Execute one request in a brand-new lane process (fresh interpreter), then stop it."""
    lane = Lane(engine, verif_seed, lane_no, hash_seed=hash_seed, c_locale=c_locale)
    try:
        return lane.call(req)
    finally:
        lane.stop()
