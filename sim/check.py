#!/venv/bin/python
"""Entry point of every registered check.

    check.py <property> --tier quick|thorough      seeded search over histories/schedules/faults/timelines
    check.py <property> --replay <file>            re-execute one minimised plan in a fresh process
    check.py --selftest-seams                      setup-time pre-flight of the clock/fs/thread seams

Exit codes: 0 the property held on everything explored (KNOWN-FINDING lines may be printed);
            1 at least one violation that known_findings.json does not list (VIOLATION line printed);
            2 harness error (nondeterminism, seam pre-flight failed, child hang) — never a pass."""
import argparse
import importlib
import json
import os
import sys
import time

HERE = os.path.dirname(os.path.abspath(__file__))
sys.path.insert(0, HERE)
import core  # noqa: E402
import lanes  # noqa: E402

KNOWN_FILE = os.path.join(core.VERIF_DIR, 'known_findings.json')
REPLAY_DIR = os.environ.get('VERIF_REPLAY_DIR') or os.path.join(core.VERIF_DIR, 'out', 'replays')
# sensitivity runs against a scratch tree (VERIF_REPO=...) must not overwrite the committed evidence / replays
EVIDENCE_DIR = os.environ.get('VERIF_EVIDENCE_DIR') or os.path.join(core.VERIF_DIR, 'evidence')

PROPS = {
    'C04': dict(engine='execsim', cfg={'mode': 'c04'}, quick=(700, 75), thorough=(12000, 1200),
                title='overrides = edit-and-recalculate, last write wins'),
    'C08': dict(engine='execsim', cfg={'mode': 'c08'}, quick=(900, 60), thorough=(20000, 900),
                title='evaluation pure/repeatable, query APIs agree'),
    'C09': dict(engine='parsersim', cfg={}, quick=(2500, 80), thorough=(60000, 1200),
                title='translation depends only on workbook + settings'),
    'C12': dict(engine='clocksim', cfg={'mode': 'invariance'}, quick=(900, 60), thorough=(20000, 900),
                title='conditional aggregates do not depend on the evaluation date'),
    'C15': dict(engine='clocksim', cfg={'mode': 'calendar'}, quick=(900, 60), thorough=(20000, 900),
                title='TODAY and everything computed from it follow the simulated local calendar'),
    'C06': dict(engine='loadsim', cfg={}, quick=(1500, 60), thorough=(30000, 900),
                title='class loaded from the written file = class object of the same text'),
}

COMPONENTS = {
    'real': ['excel2pycl.Parser', 'Excel.parse', 'openpyxl reader/writer', 'zipfile', 'lexer', 'token parser',
             'translators', 'Context.build_class', 'generated ExcelInPython class', 'Executor', 'handle_cell',
             'dateutil', 'CPython io text/buffer layers', 'CPython datetime/time', 'CPython importlib (loadsim)'],
    'stub': ['raw block device under /simfs/', 'wall clock (LD_PRELOAD libc shim) and TZ',
             'file modification stamps (re-stamped from the simulated clock)',
             'choice of which client thread runs (baton scheduler)', 'string hash seed (fixed per lane)'],
    'not_simulated': ['network / peers / partitions (none exist)', 'crash-restart (no property quantifies over crash points)',
                      'allocation failure, signals'],
}


def log(*a):
    print(*a, flush=True)


def load_known(prop):
    if not os.path.exists(KNOWN_FILE):
        return [], []
    data = json.load(open(KNOWN_FILE))
    return [f for f in data.get('findings', []) if f.get('property') == prop], data.get('fixed', [])


def load_regress(prop):
    """Committed, minimised plans of repaired defects (regress/*.json), re-executed on every run."""
    d = os.path.join(core.VERIF_DIR, 'regress')
    out = []
    if os.path.isdir(d):
        for name in sorted(os.listdir(d)):
            if name.endswith('.json'):
                rep = json.load(open(os.path.join(d, name)))
                if rep.get('property') == prop:
                    out.append((os.path.join(d, name), rep))
    return out


def same_class(res, key):
    return [m for m in (res.get('mismatches') or []) if m.get('key') == key]


class Minimiser:
    def __init__(self, engine_name, engine, verif_seed, hash_seed, c_locale, budget_runs=200, budget_s=45):
        self.engine_name, self.engine = engine_name, engine
        self.lane = lanes.Lane(engine_name, verif_seed, 0, hash_seed=hash_seed, c_locale=c_locale)
        self.budget_runs, self.budget_s = budget_runs, budget_s
        self.runs = 0

    def run_plan(self, plan):
        self.runs += 1
        return self.lane.call({'cmd': 'run', 'plan': plan, 'want_plan': False})

    def minimise(self, plan, key):
        import inspect
        t0 = time.monotonic()
        improved = True
        best = plan
        two = len(inspect.signature(self.engine.shrink).parameters) >= 2
        last = self.run_plan(plan) if two else None      # gives the engine the switch trace actually taken
        if two and ('harness_error' in last or not same_class(last, key)):
            return plan
        while improved and self.runs < self.budget_runs and time.monotonic() - t0 < self.budget_s:
            improved = False
            for cand in (self.engine.shrink(best, last) if two else self.engine.shrink(best)):
                if self.runs >= self.budget_runs or time.monotonic() - t0 > self.budget_s:
                    break
                res = self.run_plan(cand)
                if 'harness_error' in res:
                    continue
                if same_class(res, key):
                    best = cand
                    last = res
                    improved = True
                    break
        return best

    def stop(self):
        self.lane.stop()


def replay_in_fresh_process(engine_name, verif_seed, rep):
    res = lanes.fresh_lane_call(engine_name, verif_seed, 0, {'cmd': 'run', 'plan': rep['plan'], 'want_log': True},
                                hash_seed=rep['hash_seed'], c_locale=rep.get('c_locale', False))
    return res


def do_replay(prop, path):
    rep = json.load(open(path))
    engine_name = rep['engine']
    lanes.ensure_shim()
    res = replay_in_fresh_process(engine_name, rep.get('verif_seed', 0), rep)
    if 'harness_error' in res:
        log('HARNESS-ERROR during replay:', res['harness_error'])
        return 2
    key = rep['violation']['key']
    hits = same_class(res, key)
    if not hits and rep.get('regression'):
        hits = res.get('mismatches') or []      # a directed regression plan fails on ANY mismatch
        key = hits[0].get('key') if hits else key
    if hits:
        log('replayed %s: reproduced (%s)' % (path, key))
        log('  observed=%s expected=%s' % (hits[0].get('observed'), hits[0].get('expected')))
        log('VIOLATION property=%s replay=%s' % (rep['property'], path))
        return 1
    log('replayed %s: did NOT reproduce on this tree (mismatches now: %s)' % (path, [m.get('key') for m in res.get('mismatches', [])]))
    return 0


def explore(prop, tier, verif_seed, runs_override=None, budget_override=None, workers=None, keep_going=False):
    P = PROPS[prop]
    engine_name = P['engine']
    engine = importlib.import_module('engines.' + engine_name)
    n_runs, budget_s = P[tier]
    if runs_override:
        n_runs = runs_override
    if budget_override:
        budget_s = budget_override
    t_start = time.monotonic()
    wall0 = time.time()
    lanes.ensure_shim()
    log('[%s] %s — engine %s, tier %s, VERIF_SEED=%d, up to %d runs / %ds, repo %s' % (
        prop, P['title'], engine_name, tier, verif_seed, n_runs, budget_s, core.REPO))
    known, fixed = load_known(prop)
    known_lines = []
    harness_errors = []
    exit_code = 0

    # ---- 1. known findings: re-execute each canonical plan; still failing => KNOWN-FINDING line
    known_state = {}
    for f in known:
        rep = json.load(open(os.path.join(core.VERIF_DIR, f['replay'])))
        res = replay_in_fresh_process(engine_name, verif_seed, rep)
        if 'harness_error' in res:
            harness_errors.append('known finding %s: %s' % (f['id'], res['harness_error']))
            continue
        still = [m for m in res.get('mismatches', []) if engine.matches_finding(rep['plan'], m, f)]
        known_state[f['id']] = bool(still)
        if still:
            line = 'KNOWN-FINDING: property=%s %s' % (prop, f['what'])
            known_lines.append(line)
            log(line)
        else:
            log('[%s] listed finding %s no longer reproduces on this tree' % (prop, f['id']))

    # ---- 1b. directed regression plans: the minimised history/schedule/timeline of every defect that was
    # repaired ("fixed:" entries suppress nothing — if one of them fails again it is a violation like any other)
    regress_violations = []
    regress_run = 0
    for path, rep in load_regress(prop):
        res = replay_in_fresh_process(engine_name, verif_seed, rep)
        regress_run += 1
        if 'harness_error' in res:
            harness_errors.append('regression plan %s: %s' % (os.path.basename(path), str(res['harness_error'])[-500:]))
            continue
        if res.get('mismatches'):
            m = res['mismatches'][0]
            log('  regression plan %s fails again: %s' % (os.path.basename(path), engine.describe(rep['plan'], m)))
            log('VIOLATION property=%s replay=%s' % (prop, path))
            regress_violations.append(path)

    # ---- 2. seeded search
    pool = lanes.LanePool(engine_name, verif_seed, workers=workers)
    cfg = dict(P['cfg'])
    cfg['tier'] = tier
    cfg['corpus_seed'] = verif_seed
    jobs = [{'index': i, 'req': {'cmd': 'run', 'id': i, 'seed': core.run_seed(verif_seed, engine_name + json.dumps(P['cfg'], sort_keys=True), i), 'cfg': cfg}}
            for i in range(n_runs)]
    agg = {'runs': 0, 'skipped': 0, 'probes': {}, 'faults': {}, 'sets': {}, 'sigs': set(), 'digests': set(), 'steps': 0,
           'sim_time_s': 0.0, 'trivial': 0, 'samples': [], 'fault_free_runs': 0, 'faulty_runs': 0}
    failing = []
    digests = {}
    deadline = t_start + budget_s

    def on_result(job, res):
        if res is None:
            return
        if 'harness_error' in res:
            harness_errors.append('run %d: %s' % (job['index'], str(res['harness_error'])[-800:]))
            return
        agg['runs'] += 1
        digests[job['index']] = res.get('digest')
        for k, v in (res.get('probes') or {}).items():
            agg['probes'][k] = agg['probes'].get(k, 0) + v
        ff = dict(res.get('faults') or {})
        # engines whose injected disturbances are counted as probes (evaluation failures, clock steps, zone changes,
        # blocked cache directories ...) name them in FAULT_PROBES; they are reported as fired faults too
        for k in getattr(engine, 'FAULT_PROBES', ()):
            if (res.get('probes') or {}).get(k):
                ff[k] = ff.get(k, 0) + res['probes'][k]
        for k, v in ff.items():
            agg['faults'][k] = agg['faults'].get(k, 0) + v
        if sum(ff.values()) > 0:
            agg['faulty_runs'] += 1
        else:
            agg['fault_free_runs'] += 1
        for k, v in (res.get('sets') or {}).items():
            agg['sets'].setdefault(k, set()).update(v)
        agg['steps'] += res.get('steps', 0)
        agg['sim_time_s'] += res.get('sim_time_s', 0.0)
        agg['digests'].add(res.get('digest'))
        if res.get('nontrivial'):
            agg['sigs'].add(res.get('sig'))
        else:
            agg['trivial'] += 1
        if res.get('mismatches'):
            failing.append((job, res))

    batch = pool.run_batch(jobs, deadline=deadline, on_result=on_result)
    agg['skipped'] = sum(1 for _, r in batch if r is None)
    explore_wall = time.monotonic() - t_start

    # ---- 3. samples + determinism self-test on a sample: same seed again in a fresh lane process
    sample_idx = [j['index'] for j, r in batch if r is not None and 'harness_error' not in r][:3]
    det_checked = det_bad = 0
    det_targets = [j for j, r in batch if r is not None and 'harness_error' not in r][: (6 if tier == 'quick' else 24)]
    by_lane = {}
    for j in det_targets:
        by_lane.setdefault(j['index'] % core.N_LANES, []).append(j)
    for lane_no, js in by_lane.items():
        lane = lanes.Lane(engine_name, verif_seed, lane_no)
        try:
            for j in js:
                req = dict(j['req'])
                req['want_plan'] = j['index'] in sample_idx
                res = lane.call(req)
                if 'harness_error' in res:
                    harness_errors.append('determinism re-run %d: %s' % (j['index'], str(res['harness_error'])[-500:]))
                    continue
                det_checked += 1
                if res.get('digest') != digests.get(j['index']):
                    det_bad += 1
                    harness_errors.append('NONDETERMINISM: run %d digest %s vs %s' % (j['index'], digests.get(j['index']), res.get('digest')))
                if req['want_plan'] and res.get('plan') is not None:
                    agg['samples'].append(_sample_view(res['plan']))
        finally:
            lane.stop()
    pool.stop()

    # ---- 4. failing runs: minimise, classify, match against known findings, replay twice
    violations = []
    known_hits = {}
    seen_min = set()
    by_key = {}
    for job, res in failing:
        for m in res['mismatches']:
            by_key.setdefault(m['key'], []).append((job, res, m))
    log('[%s] %d runs, %d with mismatches; classes: %s' % (prop, agg['runs'], len(failing), {k: len(v) for k, v in by_key.items()}))
    os.makedirs(REPLAY_DIR, exist_ok=True)
    known_screened = {}
    max_reports = 3 if tier == 'quick' else 8
    minis = {}

    def mini_for(job):
        lane_no = job['index'] % core.N_LANES
        hs = core.lane_hash_seed(verif_seed, lane_no)
        c_loc = lane_no in lanes.C_LOCALE_LANES
        if (hs, c_loc) not in minis:
            minis[(hs, c_loc)] = Minimiser(engine_name, engine, verif_seed, hs, c_loc)
        return minis[(hs, c_loc)], hs, c_loc

    cf_budget = 40 if tier == 'quick' else 400     # counterfactual re-runs spent on screening un-minimised plans
    try:
        for key, items in sorted(by_key.items()):
            if len(violations) >= max_reports and not keep_going:
                log('[%s] %d violation(s) reported; further classes (%s...) not minimised in this run' % (prop, len(violations), key))
                break
            # smallest plans first
            items.sort(key=lambda t: len(core.canon(t[1].get('plan', {}))))
            full_budget = 2 if tier == 'quick' else 6      # full minimisations spent on plans that look like a listed finding
            tried = 0
            for job, res, m in items:
                plan = res.get('plan')
                if plan is None:
                    continue
                mini, hs, c_loc = mini_for(job)
                pre = [f for f in known if engine.matches_finding(plan, m, f)]
                if pre and full_budget <= 0:
                    # looks like a listed finding even before minimisation and enough of those were
                    # minimised to the listed signature already: screen it by the finding's
                    # counterfactual on the un-minimised plan (while that budget lasts).  Anything that
                    # does NOT pass is minimised and judged below.
                    if cf_budget > 0:
                        cf_budget -= 1
                        if engine.matches_finding(plan, m, pre[0], rerun=mini.run_plan):
                            known_screened[pre[0]['id']] = known_screened.get(pre[0]['id'], 0) + 1
                            continue
                    else:
                        known_screened[pre[0]['id'] + ' (structural only)'] = known_screened.get(pre[0]['id'] + ' (structural only)', 0) + 1
                        continue
                if tried >= (8 if tier == 'quick' else 20):
                    break
                tried += 1
                mini.runs = 0
                mini.budget_runs, mini.budget_s = (200, 45) if tier == 'quick' else (600, 120)
                matched = None
                small = mini.minimise(plan, key)
                final = mini.run_plan(small)
                hits = same_class(final, key) if 'harness_error' not in final else []
                if hits:
                    matched = next((f for f in known if engine.matches_finding(small, hits[0], f, rerun=mini.run_plan)), None)
                if 'harness_error' in final:
                    harness_errors.append('minimised plan of run %d: %s' % (job['index'], final['harness_error']))
                    continue
                if not hits:
                    harness_errors.append('run %d: class %s lost during minimisation' % (job['index'], key))
                    continue
                mm = hits[0]
                if matched is not None:
                    known_hits[matched['id']] = known_hits.get(matched['id'], 0) + 1
                    if pre:
                        full_budget -= 1
                    continue
                dg = core.digest([small, key])
                if dg in seen_min:
                    continue
                seen_min.add(dg)
                rep = {'property': prop, 'engine': engine_name, 'verif_seed': verif_seed, 'run_index': job['index'],
                       'run_seed': job['req']['seed'], 'hash_seed': hs, 'c_locale': c_loc, 'plan': small,
                       'violation': mm, 'describe': engine.describe(small, mm), 'minimiser_runs': mini.runs}
                path = os.path.join(REPLAY_DIR, '%s-%d-%s.json' % (prop, verif_seed, dg[:10]))
                with open(path, 'w') as fh:
                    json.dump(rep, fh, indent=1, sort_keys=True, default=str)
                ok = 0
                for _ in range(2):
                    r2 = replay_in_fresh_process(engine_name, verif_seed, rep)
                    if 'harness_error' not in r2 and same_class(r2, key):
                        ok += 1
                if ok < 2:
                    harness_errors.append('replay of %s reproduced %d/2 times' % (path, ok))
                    continue
                violations.append((path, rep))
                log('  ' + rep['describe'])
                log('VIOLATION property=%s replay=%s' % (prop, path))
                if not keep_going:
                    break
    finally:
        for mn in minis.values():
            mn.stop()

    if violations or regress_violations:
        exit_code = 1
    if harness_errors:
        for h in harness_errors[:20]:
            log('HARNESS-ERROR: ' + h)
        if exit_code == 0:
            exit_code = 2
    if agg['runs'] == 0 and exit_code == 0:
        log('HARNESS-ERROR: no run completed')
        exit_code = 2

    # ---- 5. evidence
    wall = time.monotonic() - t_start
    rule = getattr(engine, 'RULE', {}).get(P['cfg'].get('mode', ''), getattr(engine, 'RULE', {}).get('', ''))
    cov = {
        'evaluations': agg['runs'],
        'distinct_nontrivial': len(agg['sigs']),
        'rule': rule if isinstance(rule, str) and rule else 'see DESIGN.md',
        'samples': agg['samples'][:3] or [{'note': 'no sample captured'}],
        'seeds': {'VERIF_SEED': verif_seed, 'run_indices': [0, n_runs - 1], 'runs_completed': agg['runs'],
                  'runs_skipped_at_wall_budget': agg['skipped']},
        'runs_per_hour': int(agg['runs'] / max(explore_wall, 1e-6) * 3600),
        'simulated_steps': agg['steps'],
        'simulated_time_covered_s': agg['sim_time_s'],
        'trivial_runs': agg['trivial'],
        'fault_free_runs': agg['fault_free_runs'],
        'fault_injecting_runs': agg['faulty_runs'],
        'faults_fired': dict(sorted(agg['faults'].items())),
        'probes': dict(sorted(agg['probes'].items())),
        'distinct_measures': {k: len(v) for k, v in sorted(agg['sets'].items())},
        'distinct_run_digests': len(agg['digests']),
        'hash_seeds': sorted({core.lane_hash_seed(verif_seed, i) for i in range(core.N_LANES)}),
        'determinism_selftest': {'reruns_in_fresh_lane': det_checked, 'digest_mismatches': det_bad},
        'clock_seam': 'LD_PRELOAD libsimclock.so',
        'components': COMPONENTS,
        'regression_plans_replayed': regress_run,
        'regression_plans_failing': [os.path.basename(p) for p in regress_violations],
        'known_findings_listed': [f['id'] for f in known],
        'known_findings_reproduced': [k for k, v in known_state.items() if v],
        'known_findings_hit_by_search': known_hits,
        'known_findings_screened_unminimised': known_screened,
        'mismatch_classes_seen': {k: len(v) for k, v in by_key.items()},
        'harness_errors': len(harness_errors),
    }
    ev = {
        'property_id': prop, 'tier': tier, 'seed': verif_seed, 'level': 'exploration', 'coverage': cov,
        'assumptions': getattr(engine, 'ASSUMPTIONS', {}).get(P['cfg'].get('mode', ''), getattr(engine, 'ASSUMPTIONS', {}).get('', [])),
        'wall_s': round(wall, 2), 'violations': len(violations) + len(regress_violations),
    }
    os.makedirs(EVIDENCE_DIR, exist_ok=True)
    tmp = os.path.join(EVIDENCE_DIR, '%s.json.tmp' % prop)
    with open(tmp, 'w') as fh:
        json.dump(ev, fh, indent=1, sort_keys=True, default=str)
    os.replace(tmp, os.path.join(EVIDENCE_DIR, '%s.json' % prop))
    log('[%s] done: %d runs (%d/h), %d distinct non-trivial, %d violation(s), %d known-finding line(s), %d harness error(s), %.1fs' % (
        prop, agg['runs'], cov['runs_per_hour'], len(agg['sigs']), len(violations) + len(regress_violations), len(known_lines), len(harness_errors), wall))
    return exit_code


def _sample_view(plan):
    """A plan, trimmed so an evidence file stays readable."""
    p = json.loads(json.dumps(plan, default=str))
    for k in ('meta',):
        p.pop(k, None)
    s = json.dumps(p)
    if len(s) > 6000:
        for key in ('ops', 'clients', 'timeline', 'events'):
            if isinstance(p.get(key), list) and len(p[key]) > 8:
                p[key] = p[key][:8] + ['... %d more' % (len(p[key]) - 8)]
    return p


def selftest_seams():
    lanes.ensure_shim()
    res = lanes.fresh_lane_call('seamtest', 0, 0, {'cmd': 'run', 'id': 0})
    if 'harness_error' in res or not res.get('ok'):
        log('SEAM SELF-TEST FAILED:', json.dumps(res)[:2000])
        return 2
    log('seam self-test ok:', json.dumps(res.get('detail')))
    return 0


def main():
    ap = argparse.ArgumentParser()
    ap.add_argument('prop', nargs='?')
    ap.add_argument('--tier', default=os.environ.get('VERIF_TIER', 'quick'), choices=['quick', 'thorough'])
    ap.add_argument('--replay')
    ap.add_argument('--runs', type=int)
    ap.add_argument('--budget', type=int)
    ap.add_argument('--workers', type=int)
    ap.add_argument('--keep-going', action='store_true')
    ap.add_argument('--selftest-seams', action='store_true')
    a = ap.parse_args()
    if a.selftest_seams:
        sys.exit(selftest_seams())
    if a.prop not in PROPS:
        log('unknown property', a.prop, 'claimed:', sorted(PROPS))
        sys.exit(2)
    if a.replay:
        sys.exit(do_replay(a.prop, a.replay))
    seed = int(os.environ.get('VERIF_SEED', '0') or 0)
    sys.exit(explore(a.prop, a.tier, seed, a.runs, a.budget, a.workers, a.keep_going))


if __name__ == '__main__':
    main()
