"""Python side of the wall-clock seam (see simclock.c).  The shim is LD_PRELOADed by the
orchestrator into lane / reference processes; here it is reached through ctypes.CDLL(None)."""
import ctypes
import datetime
import os
import time

from core import VERIF_DIR, HarnessError

LIB_PATH = os.path.join(VERIF_DIR, 'build', 'libsimclock.so')
_lib = None

EPOCH = datetime.datetime(1970, 1, 1)


def lib():
    global _lib
    if _lib is None:
        try:
            l = ctypes.CDLL(None)
            l.sim_set_ns.argtypes = [ctypes.c_int64]
            l.sim_set_ns.restype = None
            l.sim_get_ns.restype = ctypes.c_int64
            l.sim_set_step_ns.argtypes = [ctypes.c_int64]
            l.sim_set_step_ns.restype = None
            l.sim_read_count.restype = ctypes.c_int64
            l.sim_reset_reads.restype = None
            l.sim_off.restype = None
            l.sim_is_on.restype = ctypes.c_int
        except AttributeError as e:
            raise HarnessError('clock shim not preloaded (LD_PRELOAD=%s): %s' % (LIB_PATH, e))
        _lib = l
    return _lib


def available() -> bool:
    try:
        lib()
        return True
    except HarnessError:
        return False


def set_ns(ns: int):
    lib().sim_set_ns(int(ns))


def get_ns() -> int:
    return int(lib().sim_get_ns())


def set_utc(dt: datetime.datetime, ns_extra: int = 0):
    """Set the simulated instant from a naive UTC datetime."""
    delta = dt - EPOCH
    set_ns((delta.days * 86400 + delta.seconds) * 10**9 + delta.microseconds * 1000 + ns_extra)


def set_step_ns(ns: int):
    lib().sim_set_step_ns(int(ns))


def reads() -> int:
    return int(lib().sim_read_count())


def reset_reads():
    lib().sim_reset_reads()


def off():
    lib().sim_off()


def set_tz(tz: str):
    """POSIX TZ string, self-contained (no tzdata needed), e.g. 'XYZ-14', 'ABC+11:30',
    'EST5EDT,M3.2.0/2,M11.1.0/2'."""
    os.environ['TZ'] = tz
    time.tzset()


def preflight():
    """Abort (harness error, never a VIOLATION) unless EVERY Python wall-clock API follows the
    simulated clock."""
    l = lib()
    was_on, was_ns = l.sim_is_on(), get_ns()
    set_tz('UTC0')
    set_utc(datetime.datetime(2031, 7, 9, 23, 59, 58))
    seen = [datetime.date.today(), datetime.datetime.now().date(), datetime.datetime.utcnow().date(),
            datetime.datetime.fromtimestamp(time.time()).date(), datetime.date.fromtimestamp(time.time_ns() // 10**9)]
    ok = all(d == datetime.date(2031, 7, 9) for d in seen)
    set_tz('XYZ-14')
    ok = ok and datetime.date.today() == datetime.date(2031, 7, 10) and datetime.datetime.now().hour == 13
    set_tz('UTC0')
    if was_on:
        set_ns(was_ns)
    else:
        off()
    if not ok:
        raise HarnessError('clock seam pre-flight failed: %r' % (seen,))
    return True
