#!/venv/bin/python
"""Hand-written mutants from the "must be caught" lists of DESIGN.md section 4 (the ones no independently
written change in seeded/ happened to cover).  Each is a textual edit of a scratch worktree of /repo's HEAD
(outside /repo and /verif, removed afterwards); the pinned tests must still pass with it and the quick check
of its property must exit 1.  Nothing here is a registered check.

    mutants.py [name ...]          run all / the named mutants, print and save the table (seeded/MUTANTS.json)"""
import json
import os
import shutil
import subprocess
import sys
import time

HERE = os.path.dirname(os.path.abspath(__file__))
ROOT = os.path.dirname(HERE)
PY = '/venv/bin/python'
RT = ['excel2pycl/src/context.py', 'excel2pycl/src/utilities/abstract_excel_in_python_class.py']

MUTANTS = [
    dict(name='c09-encoding-dropped', prop='C09', why='write_translation without encoding=: differs only under a non-UTF-8 locale (C-locale lanes) with non-ASCII text',
         edits=[('excel2pycl/src/utilities/parser.py', "open(file_path, 'w', encoding='utf-8')", "open(file_path, 'w')")]),
    dict(name='c09-append-mode', prop='C09', why='output opened in append mode: only a path written twice shows it',
         edits=[('excel2pycl/src/utilities/parser.py', "open(file_path, 'w', encoding='utf-8')", "open(file_path, 'a', encoding='utf-8')")]),
    dict(name='c09-generated-at-header', prop='C09', why='a "# generated on <date>" header: the text depends on the day of translation',
         edits=[('excel2pycl/src/utilities/parser.py', "        self._translation = context.build_class()\n",
                 "        import datetime as _dt\n        self._translation = '# generated on %s\\n' % _dt.date.today().isoformat() + context.build_class()\n")]),
    dict(name='c09-flags-cleared-before-parsing', prop='C09', why='dirty flags cleared before the workbook is read: only a FAILED read exposes the stale cache',
         edits=[('excel2pycl/src/utilities/parser.py', "        excel = Excel.parse(self._excel_file_path)\n",
                 "        self._excel_file_path_has_been_changed = False\n        self._entrypoint_cell_has_been_changed = False\n        self._safety_check_has_been_changed = False\n        excel = Excel.parse(self._excel_file_path)\n")]),
    dict(name='c09-oserror-swallowed', prop='C09', why='except OSError: pass around the write: a failed write returns normally',
         edits=[('excel2pycl/src/utilities/parser.py', "        with open(file_path, 'w', encoding='utf-8') as f:\n            f.write(self._translation)\n",
                 "        try:\n            with open(file_path, 'w', encoding='utf-8') as f:\n                f.write(self._translation)\n        except OSError:\n            pass\n")]),
    dict(name='c15-today-utc', prop='C15', why='_today from the UTC date: wrong whenever local date != UTC date',
         edits=[(f, "datetime.datetime.combine(datetime.date.today(), datetime.time(0, 0))",
                 "datetime.datetime.combine(datetime.datetime.now(datetime.timezone.utc).date(), datetime.time(0, 0))") for f in RT]),
    dict(name='c15-today-not-truncated', prop='C15', why='_today = now(): not midnight',
         edits=[(f, "datetime.datetime.combine(datetime.date.today(), datetime.time(0, 0))", "datetime.datetime.now().replace(microsecond=0)") for f in RT]),
    dict(name='c15-today-folded-at-translation', prop='C15', why='TODAY() folded into a literal when the workbook is translated',
         edits=[('excel2pycl/src/translators/today_cc_token_translator.py', "        return f'self._today()'",
                 "        import datetime as _dt\n        t = _dt.date.today()\n        return f'datetime.datetime({t.year}, {t.month}, {t.day})'")]),
    dict(name='c08-sheets-size-class-level', prop='C08', why='sheet sizes kept in a class-level list: overrides of one executor grow the grid of every executor of the class',
         edits=[('excel2pycl/src/context.py', "        self._sheets_size: List[Dict[str, int]] = {sheets_size}\n",
                 "        if not self.__class__._SIZES:\n            self.__class__._SIZES.extend({sheets_size})\n        self._sheets_size: List[Dict[str, int]] = self.__class__._SIZES\n"),
                ('excel2pycl/src/context.py', "    def __init__(self, arguments: List = None):\n        if arguments is None:\n            arguments = []\n        self._arguments: Dict[str, Any] = {{}}",
                 "    _SIZES: List = []\n\n    def __init__(self, arguments: List = None):\n        if arguments is None:\n            arguments = []\n        self._arguments: Dict[str, Any] = {{}}")]),
    dict(name='c06-write-preserves-mtime', prop='C06', why='write_translation restores the previous mtime of the output file (only matters to a loader that trusts timestamps - on this tree the loader does not, so this one is expected to SURVIVE; kept as a control)',
         expect_caught=False,
         edits=[('excel2pycl/src/utilities/parser.py', "        with open(file_path, 'w', encoding='utf-8') as f:\n            f.write(self._translation)\n",
                 "        import os as _os\n        _st = _os.stat(file_path) if _os.path.exists(file_path) else None\n        with open(file_path, 'w', encoding='utf-8') as f:\n            f.write(self._translation)\n        if _st is not None:\n            _os.utime(file_path, ns=(_st.st_atime_ns, _st.st_mtime_ns))\n")]),
    dict(name='c04-set-cells-ignores-beyond-range', prop='C04', why='set_cells silently ignores cells past the used range',
         edits=[('excel2pycl/src/utilities/executor.py', "            self._sheets_size[sheet]['last_row'] = max(row, self._sheets_size[sheet]['last_row'])\n",
                 "            if row > self._sheets_size[sheet]['last_row'] + 2:\n                continue\n            self._sheets_size[sheet]['last_row'] = max(row, self._sheets_size[sheet]['last_row'])\n")]),
]


def sh(cmd, cwd=None, env=None, timeout=3600):
    p = subprocess.run(cmd, shell=True, cwd=cwd, env=env, stdout=subprocess.PIPE, stderr=subprocess.STDOUT, timeout=timeout)
    return p.returncode, p.stdout.decode(errors='replace')


def run(m):
    wt = '/tmp/mutant_%s_%d' % (m['name'], os.getpid())
    out = wt + '_out'
    rc, o = sh('git -C /repo worktree add -q --detach %s HEAD' % wt)
    if rc:
        return {'name': m['name'], 'error': o}
    try:
        for f, old, new in m['edits']:
            p = os.path.join(wt, f)
            s = open(p).read()
            if s.count(old) != 1:
                return {'name': m['name'], 'error': 'edit site not found exactly once in %s' % f}
            open(p, 'w').write(s.replace(old, new))
        rc, o = sh('%s -m pytest -q -p no:cacheprovider --timeout=900 2>&1 | tail -1' % PY, cwd=wt, env=dict(os.environ, PYTHONPATH=wt))
        tests = o.strip()
        env = dict(os.environ, VERIF_REPO=wt, VERIF_EVIDENCE_DIR=out + '/ev', VERIF_REPLAY_DIR=out + '/rp')
        t0 = time.time()
        rc, o = sh('%s sim/check.py %s --tier quick' % (PY, m['prop']), cwd=ROOT, env=env)
        viol = [l for l in o.splitlines() if l.startswith('VIOLATION')]
        desc = [l.strip() for l in o.splitlines() if l.startswith('  ') and ('observed' in l or 'gives' in l)][:1]
        return {'name': m['name'], 'property': m['prop'], 'why': m['why'], 'tests': tests, 'exit': rc, 'violation_lines': len(viol),
                'caught': rc == 1 and bool(viol), 'expected_caught': m.get('expect_caught', True), 'first': desc, 'wall_s': round(time.time() - t0, 1),
                'repo_head': sh('git -C /repo rev-parse --short HEAD')[1].strip()}
    finally:
        sh('git -C /repo worktree remove --force %s' % wt)
        shutil.rmtree(wt, ignore_errors=True)
        shutil.rmtree(out, ignore_errors=True)


def main():
    names = sys.argv[1:]
    res_path = os.path.join(ROOT, 'seeded', 'MUTANTS.json')
    res = json.load(open(res_path)) if os.path.exists(res_path) else {}
    for m in MUTANTS:
        if names and m['name'] not in names:
            continue
        r = run(m)
        res[m['name']] = r
        print(json.dumps(r, ensure_ascii=False)[:600], flush=True)
        json.dump(res, open(res_path, 'w'), indent=1, ensure_ascii=False)
    print('\n%-38s %-5s %-8s %-8s %s' % ('mutant', 'prop', 'tests', 'caught', 'first violation'))
    for k, r in res.items():
        print('%-38s %-5s %-8s %-8s %s' % (k, r.get('property'), (r.get('tests') or '')[:8], r.get('caught'), (r.get('first') or [r.get('error', '')])[0][:100]))


if __name__ == '__main__':
    main()
