#!/venv/bin/python
"""Determinism self-test: one seed must be one exactly repeatable execution.

For every engine/property a sample of run seeds is executed
  A. in a 16-worker pool,
  B. again in fresh lane processes with 4 workers (other OS scheduling, other process ages),
  C. again in fresh interpreters started with ANOTHER PYTHONHASHSEED per lane,
and the run digests (every recorded outcome, the context-switch trace, fault firings) must be equal.
A mismatch in B is harness nondeterminism; a mismatch in C means the observable behaviour of the
library depends on the string hash seed (which on the repaired tree it must not).

    selftest.py [--n 64] [--props C04,C09,...]          exit 0 all equal, 2 otherwise"""
import argparse
import json
import os
import sys
import time

sys.path.insert(0, os.path.dirname(os.path.abspath(__file__)))
import core  # noqa: E402
import lanes  # noqa: E402
from check import PROPS  # noqa: E402


def digests(engine, seed, jobs, workers, salt):
    pool = lanes.LanePool(engine, seed, workers=workers, hash_salt=salt)
    try:
        out = pool.run_batch(jobs)
    finally:
        pool.stop()
    res = {}
    for j, r in out:
        if r is None or 'harness_error' in r:
            res[j['index']] = 'ERROR: ' + str((r or {}).get('harness_error'))[-300:]
        else:
            res[j['index']] = r.get('digest')
    return res


def main():
    ap = argparse.ArgumentParser()
    ap.add_argument('--n', type=int, default=64)
    ap.add_argument('--props', default=','.join(sorted(PROPS)))
    ap.add_argument('--seed', type=int, default=int(os.environ.get('VERIF_SEED', '0') or 0))
    a = ap.parse_args()
    lanes.ensure_shim()
    bad = 0
    for prop in a.props.split(','):
        P = PROPS[prop]
        cfg = dict(P['cfg'], tier='quick', corpus_seed=a.seed)
        jobs = [{'index': i, 'req': {'cmd': 'run', 'id': i, 'seed': core.run_seed(a.seed, P['engine'] + json.dumps(P['cfg'], sort_keys=True), i), 'cfg': cfg}}
                for i in range(a.n)]
        t0 = time.monotonic()
        A = digests(P['engine'], a.seed, jobs, 16, 0)
        B = digests(P['engine'], a.seed, jobs, 4, 0)
        C = digests(P['engine'], a.seed, jobs, 16, 1)
        errs = [i for i in A if str(A[i]).startswith('ERROR') or str(B[i]).startswith('ERROR') or str(C[i]).startswith('ERROR')]
        ab = [i for i in A if A[i] != B[i]]
        ac = [i for i in A if A[i] != C[i]]
        print('[selftest] %s (%s): %d seeds; 16 vs 4 workers in fresh processes: %d differ; other PYTHONHASHSEED: %d differ; errors %d; %.0fs' % (
            prop, P['engine'], a.n, len(ab), len(ac), len(errs), time.monotonic() - t0), flush=True)
        for i in (ab + ac + errs)[:5]:
            print('   run %d: A=%s B=%s C=%s' % (i, A[i], B[i], C[i]))
        bad += len(ab) + len(ac) + len(errs)
    sys.exit(2 if bad else 0)


if __name__ == '__main__':
    main()
